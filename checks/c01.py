"""C01 — value semantics: writes stay local, read-only operations are pure."""
from hypothesis import strategies as st

from harness.loader import load
from harness.runner import Part
from harness import world as W

S = load()

PROPERTY = "C01"
LEVEL_TEXT = 'Exploration of operation histories: every generated program (3-30 steps quick / up to 60 thorough, pool of <=10 related live objects) satisfies the frame condition on typed snapshots; a violation shrinks to a minimal program. No proof of absence beyond the generated lengths and value alphabet.'
LEVEL_NOTE = "Trusts the model's view relation (which handle is a live column view of which table) and Python object identity of the harness' own handles; serif's internal sharing is never trusted."
DESIGN_REF = "DESIGN.md §5 C01"
ENGINE = "world"
TECHNIQUE = "model-based property testing over operation histories (generated programs with swarm-enabled operation classes, interpreted over a pool of live related objects); oracle = frame condition on typed snapshots of every live object, with the view relation kept by the model"
RULE = ("programs of 3..30 (thorough ..60) steps over a pool of <= 10 live vectors/tables related by derivation (construction from "
        "vectors, >>, <<, copies, slices, masks, selections, joins, sorts, aggregates, live column views, attribute assignment "
        "with a donor vector, 2-D selections, rows kept from t[i]); writes through every key form on vectors (index vectors the program keeps, caller tuples as whole-vector / whole-column values, equal values of the next rung), table cell/row/column/region assignment, renames; plus directed histories (fixed prefixes + generated tails) for caller tuples handed over as columns and for joins on day / datetime keys. "
        "Non-trivial = the program contains a successful write executed while >= 2 other live objects are related by derivation "
        "to the written object; distinct = program encoding.")
ASSUMPTIONS = [
    "a write through a handle may change that object, the table it is a live column view of (until the table replaces that column) and the other handles of the same column object; nothing else",
    "two pool handles that are the same Python object are one object (identity of the harness' own references, not serif's storage sharing)",
    "an operation that raises must leave every pre-existing object unchanged unless it is the write target itself (atomicity of the target is C08's business)",
]


class Hooks(W.Hooks):
    def __init__(self, ctx):
        self.ctx = ctx
        self.related_writes = 0
        self.lineage = {}      # entry id -> set of ancestor entry ids

    def pre(self, world, step):
        return {e.id: W.snap(e.obj) for e in world.entries}

    def post(self, world, step, si, pre):
        ctx = self.ctx
        if si.skipped:
            return
        ctx.ev()
        # lineage (for the non-trivial rule only)
        for r in si.results:
            anc = set()
            for o in si.operands:
                anc |= {o.id} | self.lineage.get(o.id, set())
            if r.view_of:
                anc |= {r.view_of[0]} | self.lineage.get(r.view_of[0], set())
            self.lineage[r.id] = anc
        if si.kind in ("derive", "construct") and si.exc is None:
            # "operations that return a new object": the result must not be one of the objects that already existed
            for r in si.results:
                for e in world.entries:
                    if e.id in pre and e is not r and e.obj is r.obj:
                        return ctx.fail(f"{si.kind}/{si.op}/result-is-an-existing-object",
                                        f"step {step}: the result of {si.op} is the very object held as entry {e.id} (origin {e.origin}); writes through either handle reach both")
                    if e.id in pre and e is not r and e.typ == "table" and r.typ == "vec" and any(c1 is r.obj for c1 in e.obj.cols()) \
                            and si.kind == "derive":
                        return ctx.fail(f"{si.kind}/{si.op}/result-is-a-live-column",
                                        f"step {step}: the result of {si.op} ({si.info.get('rows')}, {si.info.get('cols')}) is a column object of table entry {e.id}: "
                                        f"writes through either handle reach both")
                    if e.id in pre and e is not r and e.typ == "table" and r.typ == "table" and \
                            any(c1 is c2 for c1 in e.obj.cols() for c2 in r.obj.cols()):
                        return ctx.fail(f"{si.kind}/{si.op}/result-shares-column-objects",
                                        f"step {step}: the result of {si.op} holds a column object of entry {e.id}")
        # rows the program read by indexing (t[i]) and kept: they show what the table held when they were taken
        for rid, row, (was, by_name), tid in world.rows:
            now = tuple(W.freeze(x) for x in row)
            if now != was:
                return ctx.fail(f"{si.kind}/{si.op}/held-row-changed",
                                f"step {step}: a row taken earlier by indexing table entry {tid} showed {was}, now shows {now}")
            for acc, val in by_name.items():
                if acc == "<schema>":
                    if W._sch(row) != val:
                        return ctx.fail(f"{si.kind}/{si.op}/held-row-changed-dtype",
                                        f"step {step}: a row taken earlier from table entry {tid} reported {val}, now {W._sch(row)}")
                    continue
                try:
                    cur = W.freeze(getattr(row, acc))
                except Exception as e:  # noqa: BLE001
                    cur = f"<{type(e).__name__}>"
                if cur != val:
                    return ctx.fail(f"{si.kind}/{si.op}/held-row-changed-names",
                                    f"step {step}: a row taken earlier from table entry {tid} answered .{acc} with {val}, now {cur}")
        if "key_vector" in si.info:
            # an index vector handed to v[key] = ... is read, never written
            kvec, kvals = si.info["key_vector"]
            if list(kvec) != kvals:
                return ctx.fail(f"write/{si.op}/index-vector-changed", f"step {step}: the key vector {kvals} reads {list(kvec)} after the assignment")
        allowed = set(si.may_change) if si.kind in ("write", "rename") else set()
        if si.kind in ("write", "rename"):
            tgt = world.by_id(si.info.get("target"))
            if tgt is not None:
                allowed |= {e.id for e in world.entries if e.obj is tgt.obj}
                for e in list(world.entries):
                    if e.id in allowed:
                        allowed |= {x.id for x in world.entries if x.obj is e.obj}
        if isinstance(si.exc, S.AliasError):
            allowed = set()
        changed = []
        for e in world.entries:
            if e.id in pre and e.obj is not None:
                now = W.snap(e.obj)
                if now != pre[e.id]:
                    changed.append((e, pre[e.id], now))
        for e, before, now in changed:
            if e.id in allowed:
                continue
            role = "operand" if any(o.id == e.id for o in si.operands) else "bystander"
            if "donor" in si.info and e.id == si.info["donor"]:
                role = "donor"
            what = "contents" if before[3 if before[0] == "T" else 3] != now[3] else ("names" if before[1] != now[1] else "dtype")
            if isinstance(si.exc, S.AliasError):
                return ctx.fail(f"alias-refusal-changed-something/{si.op}", f"{si.op} raised AliasError but entry {e.id} changed: {before} -> {now}")
            return ctx.fail(f"{si.kind}/{si.op}/{role}-{e.origin}-changed-{what}",
                            f"step {step}: {role} (origin {e.origin}) changed: {before} -> {now}; allowed {sorted(allowed)}")
        if si.kind in ("write", "rename") and si.info.get("ok"):
            tgt = si.info.get("target")
            fam = self.lineage.get(tgt, set()) | {i for i, a in self.lineage.items() if tgt in a}
            live_related = [e for e in world.entries if e.id in fam and e.id != tgt]
            if len(live_related) >= 2:
                self.related_writes += 1
            ctx.label("successful_writes")
        if isinstance(si.exc, S.AliasError):
            ctx.label("alias_refusals")


def run(case, ctx):
    h = Hooks(ctx)
    W.run_program(case, h)
    if h.related_writes:
        ctx.nontrivial()
    ctx.label("programs_with_related_write", int(h.related_writes > 0))


# ---------------------------------------------------------------- directed histories
# Two situations the free histories reach too rarely, written as fixed prefixes (in the world's own step language) followed by a
# generated tail of writes: (A) caller-owned tuples handed over as the new cells of a whole column / a whole vector while other
# vectors over the same tuple are alive; (B) joins whose key columns hold days on one side and datetimes on the other.
PREFIX_A = [["vec_tuple", 0, 0, 0, [1, 2, 3], False], ["table_dict", 0, 1, 0, [4, 5, 6], False], ["tset_col", 0, 0, 1, [], False],
            ["vec_list", 0, 0, 0, [7, 8, 9], False], ["set_slice", 39, 0, 3, [], False], ["vec_tuple", 0, 0, 0, [], False]]
PREFIX_B = [["table_dict", 0, 1, 2, [1, 2, 3], False], ["table_dict", 0, 3, 2, [1, 2, 3], False],
            ["join", 0, 3, 0, [], False], ["join", 0, 3, 4, [], False], ["join", 0, 3, 8, [], False], ["join", 3, 0, 0, [], False]]


def directed_programs(tier):
    tail = W.program(min_steps=3, max_steps=14, classes=["write", "view"], always=("write",),
                     extra_ops=["vec_tuple", "tset_row", "tset_row", "tset_cell", "set_int", "set_slice", "col_view", "join", "row_index"])
    return st.builds(lambda pre, suf: [list(x) for x in pre] + [s_ for s_ in suf if s_[0] not in ("table_dict",) or True],
                     st.sampled_from([PREFIX_A, PREFIX_B]), tail)


def parts(tier):
    mx = 30 if tier == "quick" else 60
    return [Part("histories", run, strategy=lambda t: W.program(min_steps=6, max_steps=mx, extra_ops=["vec_tuple"] * 5 + ["set_int", "set_slice", "attr_assign", "row_index", "row_index", "rename_column", "tset_cell", "set_index", "set_index"]), examples=(4000, 48000), shards=(16, 16),
                 floors={"programs_with_related_write": 0.1}),
            Part("directed", run, strategy=lambda t: directed_programs(t), examples=(600, 12000), shards=(4, 16))]
