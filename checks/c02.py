"""C02 — tables stay rectangular; row views agree with column views."""
from hypothesis import strategies as st

from harness.loader import load
from harness.runner import Part
from harness import world as W
from harness import relational as R
from harness.refmodel import freeze

S = load()

PROPERTY = "C02"
LEVEL_TEXT = 'Exploration: invariant (rectangular, shape, rows == columns) checked on every live table after every step of generated histories plus directed ragged / zero-row constructions; structural oracles for >>, <<, row slice/mask, 2-D selection, transpose twice; a directed structure part (tables with repeated / missing names x 16 structural operations incl. short / long rows and iterator columns).'
LEVEL_NOTE = 'Tables are read column-wise through cols() and row-wise through iteration and t[i]; nested vectors are outside the domain.'
DESIGN_REF = "DESIGN.md §5 C02"
ENGINE = "world"
TECHNIQUE = "model-based property testing over operation histories; invariant (rectangular, shape, row view == column view) checked on every live table after every step, plus structural step oracles (>>, <<, row slice/mask, transpose twice) and ragged-input rejection"
RULE = ("world programs biased to constructors (dict, list of vectors, Vector([vectors]), >> with vector/table/dict/list, << with "
        "row/rows/table, selections, joins, sorts, .T), zero-row and zero-column tables, ragged inputs in every constructor and in "
        "attribute assignment, failed updates; plus directed ragged / empty-table cases and the structure part (any names, zero rows, rows / blocks / narrower tables appended, columns handed over as iterator / generator / tuple / range). Non-trivial = a table reached through >= 2 "
        "structural operations, or a rejected ragged input; distinct = program encoding.")
ASSUMPTIONS = [
    "a ragged input must end in an exception or in a result that is not a Table; it must never be a Table that violates the invariant",
    "transposing twice is asserted for tables with at least one row and one column",
]


def check_table(ctx, t, where):
    """rectangular + shape + row/column agreement"""
    ctx.ev()
    cols = t.cols()
    try:
        n = len(t)
    except Exception as e:  # noqa: BLE001
        return ctx.fail(f"{where}/len-raised/{type(e).__name__}", str(e))
    lens = [len(c) for c in cols]
    if any(l != n for l in lens) and cols:
        return ctx.fail(f"{where}/ragged-table-stored", f"len(table)={n}, column lengths {lens}")
    if not cols and n != 0:
        return ctx.fail(f"{where}/rows-without-columns", f"len={n}")
    try:
        shape = t.shape
    except Exception as e:  # noqa: BLE001
        return ctx.fail(f"{where}/shape-raised/{type(e).__name__}", f"{lens}: {e}")
    if tuple(shape) != (n, len(cols)):
        return ctx.fail(f"{where}/shape", f"shape {shape} for {n} rows x {len(cols)} columns")
    data = [list(c) for c in cols]
    want = [tuple(c[i] for c in data) for i in range(n)]
    fw = [tuple(freeze(x) for x in r) for r in want]
    try:
        rows = [tuple(r) for r in t]
    except Exception as e:  # noqa: BLE001
        kind = "untyped-columns" if any(c.schema() is None for c in cols) else "typed"
        return ctx.fail(f"{where}/iteration-raised/{type(e).__name__}/{kind}", f"{data}: {e}")
    if [tuple(freeze(x) for x in r) for r in rows] != fw:
        return ctx.fail(f"{where}/iteration-rows-differ-from-columns", f"rows {rows} columns {data}")
    for i in ([0, n - 1, -1] if n else []):
        try:
            r = tuple(t[i])
        except Exception as e:  # noqa: BLE001
            return ctx.fail(f"{where}/row-index-raised/{type(e).__name__}", f"t[{i}]: {e}")
        if tuple(freeze(x) for x in r) != fw[i]:
            return ctx.fail(f"{where}/row-index-differs-from-columns", f"t[{i}] = {r}, columns give {want[i]}")
    return False


def cells(snap_):
    """column data of a world snapshot ('T', names, schemas, cols, len) or ('V', ...)"""
    return [list(c) for c in snap_[3]] if snap_[0] == "T" else [list(snap_[3])]


class Hooks(W.Hooks):
    def __init__(self, ctx):
        self.ctx = ctx
        self.struct_depth = {}
        self.nontrivial = False
        self.failed = False

    def post(self, world, step, si, pre):
        ctx = self.ctx
        if si.skipped or self.failed:
            return
        for e in world.live("table"):
            if check_table(ctx, e.obj, f"after-{si.op}"):
                self.failed = True
                return
        res = si.results[0].obj if si.results else None
        # ragged input: exception or not a Table
        if si.info.get("ragged"):
            ctx.label("ragged_inputs")
            if si.op == "attr_assign":
                if si.info.get("ok"):
                    self.failed = ctx.fail("attr_assign/ragged-column-accepted", f"step {step}: value of length {len(si.info['value'])} assigned")
                    return
                self.nontrivial = True
            elif isinstance(res, S.Table):
                # the result passed check_table above only if it is rectangular; a rectangular result of a ragged input
                # means cells were dropped or invented
                self.failed = ctx.fail(f"{si.op}/ragged-input-produced-a-table", f"step {step}: {W.snap(res)}")
                return
            else:
                self.nontrivial = True
        if si.exc is None and si.op == "lshift" and not si.info.get("bad") and si.operands[0].typ == "table" \
                and si.info.get("result_type") != "Table" and len({len(a) for a in si.info.get("appended", [[]])}) == 1:
            self.failed = ctx.fail(f"lshift/{si.info['form']}/result-is-not-a-table", f"step {step}: table << rows returned {si.info.get('result_type')}")
            return
        if si.exc is not None or res is None:
            return
        if si.op == "rshift" and isinstance(res, S.Table):
            left = si.info["left"]
            lc = [list(c) for c in left[3]] if left[0] == "T" else [list(left[3])]
            rc = [[freeze(x) for x in c] for c in si.info["right_cols"]]
            got = [[freeze(x) for x in c] for c in res.cols()]
            if got[:len(lc)] != lc:
                self.failed = ctx.fail("rshift/existing-columns-changed", f"step {step}: left {lc} result {got}")
                return
            if got[len(lc):] != rc:
                self.failed = ctx.fail("rshift/appended-columns-wrong", f"step {step}: appended {got[len(lc):]}, expected {rc}")
                return
        if si.op == "lshift" and not si.info.get("bad"):
            left = si.info["left"]
            lc = [list(c) for c in left[3]] if left[0] == "T" else [list(left[3])]
            app = si.info["appended"]
            got = [[freeze(x) for x in c] for c in res.cols()] if isinstance(res, S.Table) else [[freeze(x) for x in res]]
            want = [c + [freeze(x) for x in a] for c, a in zip(lc, app)]
            if len(got) != len(lc) or got != want:
                uneven = len({len(a) for a in app}) > 1
                if not uneven:
                    self.failed = ctx.fail(f"lshift/{si.info['form']}/rows-not-appended-to-every-column", f"step {step}: got {got} want {want}")
                    return
        if si.op in ("slice", "mask") and si.operands[0].typ == "table" and isinstance(res, S.Table):
            src = [list(c) for c in si.operands[0].obj.cols()]
            if si.op == "slice":
                want = [[freeze(x) for x in c[si.info["key"]]] for c in src]
            else:
                want = [[freeze(x) for x, f in zip(c, si.info["mask"]) if f] for c in src]
            got = [[freeze(x) for x in c] for c in res.cols()]
            if got != want:
                self.failed = ctx.fail(f"{si.op}/not-applied-uniformly", f"step {step}: got {got} want {want}")
                return
        if si.op == "select2d":
            src = [list(c) for c in si.operands[0].obj.cols()]
            want = [[freeze(x) for x in src[j][si.info["rows"]]] for j in si.info["picked"]]
            got = [[freeze(x) for x in c] for c in res.cols()] if isinstance(res, S.Table) else [[freeze(x) for x in res]]
            if got != want:
                self.failed = ctx.fail(f"select2d/{si.info['form']}/cells", f"step {step}: t[{si.info['rows']}, {si.info['cols']!r}] gave {got}, the columns give {want}")
                return
        if si.op == "transpose" and isinstance(res, S.Table):
            src = si.operands[0].obj
            if len(src) >= 1 and len(src.cols()) >= 1:
                try:
                    back = res.T
                except Exception as e:  # noqa: BLE001
                    self.failed = ctx.fail(f"transpose/second-transpose-raised/{type(e).__name__}", str(e))
                    return
                if check_table(ctx, back, "after-transpose-twice"):
                    self.failed = True
                    return
                a = [[freeze(x) for x in c] for c in src.cols()]
                b = [[freeze(x) for x in c] for c in back.cols()]
                if a != b:
                    self.failed = ctx.fail("transpose/twice-differs", f"{a} vs {b}")
                    return
        for r in si.results:
            d = 1 + max([self.struct_depth.get(o.id, 0) for o in si.operands] + [0])
            self.struct_depth[r.id] = d
            if r.typ == "table" and d >= 2:
                self.nontrivial = True


def run(case, ctx):
    h = Hooks(ctx)
    W.run_program(case, h)
    if h.nontrivial:
        ctx.nontrivial()


# ---------------------------------------------------------------- directed: ragged constructors, empty tables
@st.composite
def direct_case(draw, tier="quick"):
    k = draw(st.integers(1, 4))
    lens = draw(st.lists(st.integers(0, 4), min_size=k, max_size=k))
    form = draw(st.sampled_from(["table_list", "table_dict", "vector_of_vectors", "rshift_chain", "empty_cols", "zero_row_update", "zero_row_update"]))
    return {"lens": lens, "form": form, "typed": draw(st.booleans()), "how": draw(st.sampled_from(["dict", "mask", "slice", "typed"])),
            "update": draw(st.sampled_from(["attr", "attr_indexed", "attr_generator", "rshift_dict", "rshift_vec", "lshift_row"])), "m": draw(st.integers(1, 3))}


def run_zero_row(case, ctx):
    """a table with columns but no rows, then an update that would give one column rows"""
    k = len(case["lens"])
    names = [f"c{i}" for i in range(k)] if case["update"] != "attr_indexed" or k < 2 else ["c0"] * k
    how = case["how"]
    if how == "dict" and len(set(names)) == len(names):
        t = S.Table({nm: [] for nm in names})
    elif how == "typed":
        t = S.Table([S.Vector([], dtype=int, name=nm) for nm in names])
    else:
        full = S.Table([S.Vector([1, 2, 3], name=nm) for nm in names])
        t = full[[False, False, False]] if how == "mask" else full[0:0]
    if not isinstance(t, S.Table) or check_table(ctx, t, "zero-row"):
        return
    vals = list(range(case["m"]))
    upd = case["update"]
    ctx.ev()
    res = t
    try:
        if upd == "attr":
            t.c0 = vals
        elif upd == "attr_generator":
            t.c0 = (x for x in vals)
        elif upd == "attr_indexed":
            setattr(t, f"c0__{k - 1}" if k >= 2 else "c0", vals)
        elif upd == "rshift_dict":
            res = t >> {"extra": vals}
        elif upd == "rshift_vec":
            res = t >> S.Vector(vals, name="extra")
        else:
            res = t << list(range(k))          # appending one full row is legitimate
    except Exception:  # noqa: BLE001
        ctx.label("rejected")
        ctx.nontrivial()
        res = t
    for obj, nm in ((t, "target"), (res, "result")):
        if isinstance(obj, S.Table) and check_table(ctx, obj, f"zero-row-{upd}-{nm}"):
            return
    ctx.label("empty_table")


def run_direct(case, ctx):
    if case["form"] == "zero_row_update":
        return run_zero_row(case, ctx)
    lens, form = case["lens"], case["form"]
    ragged = len(set(lens)) > 1
    cols = [(f"c{i}", list(range(n))) for i, n in enumerate(lens)]
    vecs = [S.Vector(list(v), name=nm) if (v or not case["typed"]) else S.Vector([], dtype=int, name=nm) for nm, v in cols]
    ctx.ev()
    try:
        if form == "table_list":
            t = S.Table(vecs)
        elif form == "table_dict":
            t = S.Table({nm: list(v) for nm, v in cols})
        elif form == "vector_of_vectors":
            t = S.Vector(vecs)
        elif form == "rshift_chain":
            t = vecs[0]
            for v in vecs[1:]:
                t = t >> v
                if not isinstance(t, S.Table):
                    break       # a non-table result (vector of vectors): the ragged input was not stored as a table
        else:
            t = S.Table({nm: [] for nm, _ in cols})
            ragged = False
    except Exception:  # noqa: BLE001
        if not ragged and form != "rshift_chain":
            raise
        ctx.label("rejected")
        ctx.nontrivial()
        return
    if isinstance(t, S.Table):
        if check_table(ctx, t, f"direct-{form}"):
            return
        if ragged:
            return ctx.fail(f"direct-{form}/ragged-input-produced-a-table", f"column lengths {lens} -> {W.snap(t)}")
    elif ragged:
        ctx.label("rejected")
        ctx.nontrivial()
    ctx.label("empty_table", int(isinstance(t, S.Table) and len(t) == 0))

# ---------------------------------------------------------------- directed: structural operations on tables with any names
STRUCT_NAMES = ["a", "b", "a", "c", None, "A", "a b", "k", "a__1", "sum"]
STRUCT_OPS = ["lshift_row", "lshift_rows", "lshift_table", "rshift_vec", "rshift_dict", "rshift_table", "slice", "mask", "transpose2",
              "lshift_short", "lshift_long", "lshift_narrow_table", "rshift_iter", "rshift_gen", "rshift_tuple", "rshift_range"]


@st.composite
def struct_case(draw, tier="quick"):
    k = draw(st.integers(1, 4))
    n = draw(st.one_of(st.integers(0, 4), st.integers(1, 3)))
    names = [draw(st.sampled_from(STRUCT_NAMES)) for _ in range(k)]
    if draw(st.integers(0, 3)) == 0 and k >= 2:
        names[-1] = names[0]                       # a repeated stored name (as joins, >> and renames produce)
    kinds = [draw(st.sampled_from(["int", "int", "str", "float"])) for _ in range(k)]
    el = {"int": st.integers(-3, 9), "str": st.sampled_from(["p", "q", ""]), "float": st.sampled_from([0.5, -1.0, 2.0])}
    cols = [[draw(st.one_of(el[kd], el[kd], st.none())) for _ in range(n)] for kd in kinds]
    m = draw(st.integers(1, 2))
    extra = [[draw(el[kd]) for _ in range(m)] for kd in kinds]          # rows to append, column by column
    new = [draw(el["int"]) for _ in range(n)]                            # a column to append
    sl = (draw(st.one_of(st.none(), st.integers(-n - 1, n + 1))), draw(st.one_of(st.none(), st.integers(-n - 1, n + 1))),
          draw(st.sampled_from([None, None, 1, 2, -1, -2])))
    mask = [draw(st.booleans()) for _ in range(n)]
    return {"names": names, "cols": cols, "op": draw(st.sampled_from(STRUCT_OPS)), "extra": extra, "new": new, "new_name": draw(st.sampled_from(STRUCT_NAMES)),
            "slice": sl, "mask": mask}


def run_struct(case, ctx):
    names, cols, op = case["names"], case["cols"], case["op"]
    k, n = len(cols), len(cols[0])
    if n == 0:
        t = S.Table([S.Vector([], dtype={int: int, str: str, float: float}[type(e[0])], name=nm) for nm, e in zip(names, case["extra"])])
    else:
        t = S.Table([S.Vector(list(c), name=nm) for nm, c in zip(names, cols)])
    if not isinstance(t, S.Table) or check_table(ctx, t, "struct-source"):
        return
    before = [[freeze(x) for x in c] for c in cols]
    fz = lambda cs: [[freeze(x) for x in c] for c in cs]      # noqa: E731
    ctx.ev()
    try:
        if op == "lshift_row":
            res = t << [e[0] for e in case["extra"]]
            want = [c + [freeze(e[0])] for c, e in zip(before, case["extra"])]
        elif op == "lshift_rows":
            res = t << [list(e) for e in case["extra"]]
            want = [c + fz([e])[0] for c, e in zip(before, case["extra"])]
        elif op == "lshift_table":
            other = S.Table([S.Vector(list(e), name=nm) for nm, e in zip(names, case["extra"])])
            res = t << other
            want = [c + fz([e])[0] for c, e in zip(before, case["extra"])]
        elif op in ("lshift_short", "lshift_long", "lshift_narrow_table"):
            # a row / block with another number of cells than the table has columns would leave the table ragged: rejected
            cells_ = [e[0] for e in case["extra"]]
            if op == "lshift_short":
                if k < 2:
                    return
                bad = cells_[:-1] if case["mask"][:1] != [True] else tuple(cells_[:-1])
            elif op == "lshift_long":
                bad = cells_ + [cells_[0]]
            else:
                if k < 2:
                    return
                bad = S.Table([S.Vector(list(e), name=nm) for nm, e in zip(names[:-1], case["extra"][:-1])])
            try:
                res = t << bad
            except Exception:  # noqa: BLE001
                ctx.label("ragged_row_rejected")
                ctx.nontrivial()
                return
            if isinstance(res, S.Table):
                return ctx.fail(f"struct/{op}/ragged-row-accepted", f"names {names} cells {cols} << {bad if not isinstance(bad, S.Table) else 'narrower table'}: "
                                                                     f"shape {res.shape}")
            return
        elif op in ("rshift_iter", "rshift_gen", "rshift_tuple", "rshift_range"):
            # a column handed over as a one-shot iterator, a generator, a tuple or a range: the same column as from a list
            new_ = list(range(n)) if op == "rshift_range" else list(case["new"])
            src_ = {"rshift_iter": lambda: iter(new_), "rshift_gen": lambda: (x for x in new_), "rshift_tuple": lambda: tuple(new_),
                    "rshift_range": lambda: range(n)}[op]()
            res = t >> src_
            want = before + fz([new_])
        elif op == "rshift_vec":
            res = t >> S.Vector(list(case["new"]), name=case["new_name"])
            want = before + fz([case["new"]])
        elif op == "rshift_dict":
            if case["new_name"] is None:
                return
            res = t >> {case["new_name"]: list(case["new"])}
            want = before + fz([case["new"]])
        elif op == "rshift_table":
            res = t >> S.Table([S.Vector(list(case["new"]), name=case["new_name"]), S.Vector(list(case["new"]), name=names[0])])
            want = before + fz([case["new"], case["new"]])
        elif op == "slice":
            key = slice(*case["slice"])
            res = t[key]
            want = [c[key] for c in before]
        elif op == "mask":
            res = t[S.Vector(list(case["mask"]))] if n else t[S.Vector([], dtype=bool)]
            want = [[x for x, f in zip(c, case["mask"]) if f] for c in before]
        else:
            if n == 0:
                return
            res = t.T.T
            want = before
    except Exception as e:  # noqa: BLE001
        if type(e).__name__ == "Violation":
            raise
        if n == 0 and op.startswith("rshift"):
            ctx.label("struct_refused_on_empty")
            return            # appending a column of n=0 values to a zero-row table: nothing to decide
        return ctx.fail(f"struct/{op}/raised/{type(e).__name__}", f"names {names} cells {cols}: {e}")
    if not isinstance(res, S.Table):
        return ctx.fail(f"struct/{op}/result-is-not-a-table", f"names {names} cells {cols}: {type(res).__name__}")
    if check_table(ctx, res, f"struct-{op}"):
        return
    got = fz([list(c) for c in res.cols()])
    if got != want:
        rep = "repeated-names" if len(set(names)) < len(names) else "distinct-names"
        return ctx.fail(f"struct/{op}/cells/{rep}", f"names {names} cells {cols}: got {got}, want {want}")
    if fz([list(c) for c in t.cols()]) != before:
        return ctx.fail(f"struct/{op}/source-changed", f"names {names} cells {cols}")
    ctx.label("repeated_names", int(len(set(names)) < len(names)))
    if len(set(names)) < len(names) or None in names:
        ctx.nontrivial()


def parts(tier):
    mx = 30 if tier == "quick" else 60
    classes = {k: v for k, v in W.OP_CLASSES.items()}
    return [
        Part("histories", run, strategy=lambda t: W.program(max_steps=mx, always=("construct", "construct", "view", "write", "derive")),
             examples=(2500, 48000), shards=(8, 16), floors={"ragged_inputs": 0.05}),
        Part("direct", run_direct, strategy=lambda t: direct_case(t), examples=(1500, 40000), shards=(2, 16),
             floors={"rejected": 0.1, "empty_table": 0.05}),
        Part("structure", run_struct, strategy=lambda t: struct_case(t), examples=(2500, 60000), shards=(4, 16),
             floors={"repeated_names": 0.2}),
    ]
