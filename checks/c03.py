"""C03 — a vector's reported dtype is always truthful."""
import io
import operator
from datetime import date, datetime

from hypothesis import strategies as st

from harness.loader import load
from harness.runner import Part
from harness import build as B
from harness import values as V
from harness import world as W
from harness import relational as R
from harness.observe import untruthful
from checks import c05, c08, c14, c19

S = load()

PROPERTY = "C03"
LEVEL_TEXT = 'Exploration with a universal observer: the truthfulness predicate (membership, nullability, write-back keeps the dtype) is applied to every vector produced or mutated by the generators of C05, C08, C09-C14, C19 and by world histories.'
LEVEL_NOTE = 'Kind membership = exact type or documented ladder; the operational form rebuilds the vector with its reported dtype.'
DESIGN_REF = "DESIGN.md §5 C03"
ENGINE = "world"
TECHNIQUE = "property-based testing with a universal observer: directed generators for every dtype-producing operation, plus the generators of the other checks (assignment, elementwise, joins, aggregate/window, sort, CSV, operation histories) re-run with the truthfulness predicate applied to every vector they produce or mutate"
RULE = ("directed: typed / mixed vectors with None x {reflected + with wider scalar or list, unary - + abs ~, << with scalar / list / "
        "vector of other kinds, cast, fillna, dropna, isna, method proxies, copy, slice, mask, to_object, sort_by, unique, binary "
        "math}; assignment cases of C08; result columns of joins, aggregate, window, sort_by, read_csv; every live object after every "
        "step of world histories; the rows a table hands out (t[i], iteration, their copies); operands built fresh or promoted in place. Predicate: every non-None element belongs to the reported kind (documented widenings count), None "
        "only if nullable, and v[i] = v[i] is accepted without changing the dtype. Non-trivial = a result whose kind differs from an "
        "operand kind, or that contains None, or that went through assignment promotion; distinct = case encoding.")
ASSUMPTIONS = [
    "a vector whose elements are themselves vectors is outside the domain",
    "the operational form rebuilds the vector with its reported dtype and writes three of its own elements back",
]


def check(ctx, obj, where):
    if obj is None or not isinstance(obj, S.Vector):
        return False
    ctx.ev()
    r = untruthful(obj)
    if r:
        return ctx.fail(f"{where}/{r[0]}", r[1])
    return False


# ---------------------------------------------------------------- directed
@st.composite
def directed_case(draw, tier="quick"):
    kind, vals = draw(V.column(kinds=["bool", "int", "float", "complex", "str", "date", "datetime", "bytes"], min_size=0, max_size=6))
    k2 = draw(st.sampled_from(["bool", "int", "float", "complex", "str", "date", "datetime"]))
    others = draw(st.lists(st.one_of(V.SCALARS[k2], st.none()), min_size=len(vals), max_size=len(vals)))
    return {"kind": kind, "vals": vals, "scalar": draw(V.SCALARS[k2]), "others": others, "k2": k2,
            "mask": draw(st.lists(st.booleans(), min_size=len(vals), max_size=len(vals)))}


def run_directed(case, ctx):
    vals, s, others = case["vals"], case["scalar"], case["others"]
    if vals and all(x is None for x in vals) and False:
        return
    v = S.Vector(list(vals), name="n")
    if check(ctx, v, "inference"):
        return
    n = len(vals)
    ops = {
        "radd-scalar": lambda: s + v, "radd-list": lambda: list(others) + v, "add-scalar": lambda: v + s, "add-list": lambda: v + list(others),
        "rsub-scalar": lambda: s - v, "mul-scalar": lambda: v * s, "rmul-scalar": lambda: s * v, "truediv-scalar": lambda: v / s,
        "pow-scalar": lambda: v ** (s if not isinstance(s, int) or isinstance(s, bool) or abs(s) < 9 else 2),
        "neg": lambda: -v, "pos": lambda: +v, "abs": lambda: abs(v), "invert": lambda: ~v,
        "lshift-scalar": lambda: v << s, "lshift-list": lambda: v << list(others), "lshift-vector": lambda: v << S.Vector(list(others)),
        "rlshift-list": lambda: list(others) << v,
        "cast-float": lambda: v.cast(float), "cast-str": lambda: v.cast(str), "cast-int": lambda: v.cast(int), "cast-bool": lambda: v.cast(bool),
        "cast-date": lambda: v.cast(date), "cast-datetime": lambda: v.cast(datetime), "cast-complex": lambda: v.cast(complex),
        "fillna-none": lambda: v.fillna(None), "fillna-none-twice": lambda: v.fillna(None).fillna(None),
        "fillna-scalar": lambda: v.fillna(s), "fillna-same": lambda: v.fillna(next((x for x in vals if x is not None), 0)),
        "dropna": lambda: v.dropna(), "isna": lambda: v.isna(), "copy": lambda: v.copy(), "slice": lambda: v[1:], "empty-slice": lambda: v[2:2],
        "mask": lambda: v[S.Vector(case["mask"])] if n else v[S.Vector([], dtype=bool)],
        "to_object": lambda: v.to_object(), "sort": lambda: v.sort_by(), "T": lambda: v.T, "unique": lambda: v.unique(),
        "eq": lambda: v == s, "isinstance": lambda: v.isinstance(int),
        "and-scalar": lambda: v & s, "or-scalar": lambda: v | s, "xor-scalar": lambda: v ^ s, "rand-scalar": lambda: s & v, "ror-scalar": lambda: s | v,
        "and-list": lambda: v & list(others), "or-vector": lambda: v | S.Vector(list(others)), "xor-list": lambda: v ^ list(others),
        "new": lambda: S.Vector.new(s, max(n, 1)), "new-none": lambda: S.Vector.new(None, max(n, 1)), "new-empty": lambda: S.Vector.new(s, 0),
        "new-first-element": lambda: S.Vector.new(vals[0] if vals else None, 2),
        "proxy-upper": lambda: v.upper(), "proxy-bit_length": lambda: v.bit_length(), "prop-year": lambda: v.year, "prop-real": lambda: v.real,
        "pluck": lambda: v.pluck(0),
    }
    numeric = case["kind"] in ("bool", "int", "float", "complex") and case["k2"] in ("bool", "int", "float", "complex")
    for name, f in ops.items():
        if name in ("mul-scalar", "rmul-scalar", "pow-scalar") and not numeric:
            continue            # 'ab' * 2**31 is a 4 GB string, not a dtype question
        try:
            r = f()
        except Exception:  # noqa: BLE001  (the operation is not defined for these operands: nothing to observe)
            continue
        if isinstance(r, S.Table):
            continue
        if check(ctx, r, f"directed/{name}"):
            return
        if isinstance(r, S.Vector) and r.schema() is not None and v.schema() is not None and (r.schema().kind is not v.schema().kind or None in list(r)):
            ctx.nontrivial(name)
    if check(ctx, v, "operand-after-operations"):
        return


# ---------------------------------------------------------------- assignment (C08 generator)
def run_assign(case, ctx):
    vals = case["vals"]
    if vals and all(isinstance(x, S.Vector) for x in vals):
        return
    v = S.Vector(list(vals), name="n")
    if isinstance(v, S.Table):
        return
    k0 = v.schema().kind if v.schema() is not None else None
    try:
        v[c08.make_key(case["key"])] = c08.make_value(case["value"])
        ok = True
    except Exception:  # noqa: BLE001
        ok = False
    if check(ctx, v, f"assignment/{'after-success' if ok else 'after-failure'}/{case['key'][0]}"):
        return
    if ok and v.schema() is not None and (v.schema().kind is not k0 or None in list(v)):
        ctx.nontrivial()


# ---------------------------------------------------------------- relational results
def run_join(case, ctx):
    lt, rt, lon, ron, *_ = R.realise(case)
    for kind in ("inner_join", "join", "full_join"):
        try:
            t = getattr(lt, kind)(rt, lon, ron, expect="many_to_many")
        except Exception:  # noqa: BLE001
            continue
        for i, c in enumerate(t.cols()):
            if check(ctx, c, f"result-column/{kind}"):
                return
            if None in list(c):
                ctx.nontrivial()


def run_group(case, ctx):
    t, over, vspecs, _ = R.realise_group(case)
    over_arg, kw = R.group_call_args(case, over, vspecs, lambda vals: len(vals))
    for meth in ("aggregate", "window"):
        try:
            r = getattr(t, meth)(over=over_arg, **kw)
        except Exception:  # noqa: BLE001
            continue
        for c in r.cols():
            if check(ctx, c, f"result-column/{meth}"):
                return
            if None in list(c):
                ctx.nontrivial()


def run_sort(case, ctx):
    cols, kpos = c14._build(case)
    t = R.build_table(cols)
    by, rev = c14._by(case, t, cols, kpos)
    try:
        out = t.sort_by(by, reverse=rev, na_last=case["na_last"])
    except Exception:  # noqa: BLE001
        return
    for c in out.cols():
        if check(ctx, c, "result-column/sort_by"):
            return
        if None in list(c):
            ctx.nontrivial()


def run_csv(case, ctx):
    import csv
    buf = io.StringIO()
    w = csv.writer(buf, delimiter=case["delimiter"], lineterminator=case["terminator"])
    try:
        for r in ([case["header"]] if case["header"] is not None else []) + case["recs"]:
            w.writerow(r)
        t = S.read_csv(io.StringIO(buf.getvalue(), newline=""), delimiter=case["delimiter"], has_header=case["header"] is not None)
    except Exception:  # noqa: BLE001
        return
    if isinstance(t, S.Table):
        for c in t.cols():
            if check(ctx, c, "result-column/read_csv"):
                return
            if None in list(c):
                ctx.nontrivial()


def run_elementwise(case, ctx):
    a, b, fam = case["a"], case["b"], case["fam"]
    if not a:
        return
    va, vb = B.vector(a), B.vector(b)
    for name, op in c05.BIN:
        for form, f in (("vector", lambda: op(va, vb)), ("scalar", lambda: op(va, case["sb"])), ("rscalar", lambda: op(case["sa"], vb)),
                        ("list", lambda: op(va, list(b))), ("rlist", lambda: op(list(a), vb))):
            try:
                if name == "pow":
                    c05._ref(op, a if form != "rscalar" else [case["sa"]] * len(b), b if form not in ("scalar",) else [case["sb"]] * len(a))
                r = f()
            except Exception:  # noqa: BLE001
                continue
            if isinstance(r, S.Vector) and not isinstance(r, S.Table):
                if check(ctx, r, f"elementwise/{form}/{name}"):
                    return
    for name, op in c05.UNARY:
        try:
            r = op(va)
        except Exception:  # noqa: BLE001
            continue
        if check(ctx, r, f"elementwise/unary/{name}"):
            return
    if case["ka"] != case["kb"] or None in a or None in b:
        ctx.nontrivial()


# ---------------------------------------------------------------- histories
class Hooks(W.Hooks):
    def __init__(self, ctx):
        self.ctx = ctx
        self.failed = False
        self.deep = False

    def post(self, world, step, si, pre):
        if si.skipped or self.failed:
            return
        for e in world.entries:
            if e.obj is None:
                continue
            r = untruthful(e.obj, operational=(e in si.results or e.id in si.may_change))
            self.ctx.ev()
            if r:
                how = f"after-{si.op}" if (e in si.results or e.id in si.may_change) else "bystander"
                self.failed = self.ctx.fail(f"history/{how}/{r[0]}", f"{e.typ} (origin {e.origin}) after step {step}: {r[1]}")
                return
        if any(r.depth >= 2 for r in si.results):
            self.deep = True


def run_history(case, ctx):
    h = Hooks(ctx)
    W.run_program(case, h)
    if h.deep:
        ctx.nontrivial()

# ---------------------------------------------------------------- results of broadcast methods
def run_methods(case, ctx):
    """every vector a broadcast method / property returns (c05's method cases, incl. columns that hold lower-rung elements)"""
    vals = case["vals"]
    if not vals or all(x is None for x in vals):
        return
    v = B.vector(vals)
    for name, args, kw in [tuple(p) for p in case["picks"]]:
        try:
            attr = getattr(v, name)
            res = attr(*args, **kw) if callable(attr) and not isinstance(attr, S.Vector) else attr
        except Exception:  # noqa: BLE001  (whether the call is defined is C05's matter)
            continue
        if isinstance(res, S.Vector) and check(ctx, res, f"method/{case['kind']}"):
            return
    if None in vals:
        ctx.nontrivial()


# ---------------------------------------------------------------- rows are vectors too
@st.composite
def rows_case(draw, tier="quick"):
    n = draw(st.integers(1, 5))
    k = draw(st.integers(1, 4))
    uniform = draw(st.booleans())
    kinds = [draw(st.sampled_from(["int", "float", "str", "bool", "date", "datetime"]))] * k if uniform else \
        [draw(st.sampled_from(["int", "float", "str", "bool", "date", "datetime"])) for _ in range(k)]
    if k >= 2 and draw(st.integers(0, 3)) == 0:
        # columns of two neighbouring rungs only (days next to datetimes, bools next to ints ...): the row is no vector of the lower rung
        lo, hi = draw(st.sampled_from([("date", "datetime"), ("bool", "int"), ("int", "float"), ("float", "complex")]))
        kinds = [lo] + [draw(st.sampled_from([lo, hi])) for _ in range(k - 2)] + [hi]
    cols = [draw(V.column(kind=kd, min_size=n, max_size=n))[1] for kd in kinds]
    if n >= 2 and draw(st.integers(0, 2)) == 0:
        # the first row is complete, a later one is not
        for kd, c in zip(kinds, cols):
            if c[0] is None:
                c[0] = draw(V.SCALARS[kd])
        cols[draw(st.integers(0, k - 1))][draw(st.integers(1, n - 1))] = None
    return {"cols": cols}


def run_rows(case, ctx):
    """the rows a table hands out (t[i], iteration, their copies) report a schema like every other vector"""
    cols = case["cols"]
    t = S.Table({f"c{j}": list(c) for j, c in enumerate(cols)})
    if not isinstance(t, S.Table):
        return
    n = len(cols[0])
    for i, row in enumerate(t):
        if check(ctx, row, "row/iterated") or check(ctx, row.copy(), "row/iterated-copy"):
            return
    for i in range(-n, n):
        r = t[i]
        if check(ctx, r, "row/indexed") or check(ctx, r.copy(), "row/indexed-copy") or check(ctx, r + r if False else None, "row"):
            return
    later_none = any(x is None for c in cols for x in c[1:]) and all(c[0] is not None for c in cols)
    ctx.label("first_row_complete_later_none", int(later_none))
    if later_none:
        ctx.nontrivial()


def parts(tier):
    mx = 30 if tier == "quick" else 60
    return [
        Part("directed", run_directed, strategy=lambda t: directed_case(t), examples=(2500, 100000), shards=(6, 16)),
        Part("assign", run_assign, strategy=lambda t: c08.assign_case(t), examples=(2500, 100000), shards=(3, 16)),
        Part("elementwise", run_elementwise, strategy=lambda t: c05.operand_case(t), examples=(1200, 40000), shards=(3, 16)),
        Part("join", run_join, strategy=lambda t: R.join_case(t), examples=(800, 40000), shards=(2, 16)),
        Part("group", run_group, strategy=lambda t: R.group_case(t), examples=(800, 40000), shards=(2, 16)),
        Part("sort", run_sort, strategy=lambda t: c14.sort_case(t), examples=(500, 20000), shards=(1, 16)),
        Part("csv", run_csv, strategy=lambda t: c19.csv_case(t), examples=(800, 30000), shards=(1, 16)),
        Part("methods", run_methods, strategy=lambda t: c05.method_case(t), examples=(800, 30000), shards=(2, 16)),
        Part("rows", run_rows, strategy=lambda t: rows_case(t), examples=(800, 30000), shards=(2, 16),
             floors={"first_row_complete_later_none": 0.05}),
        Part("history", run_history, strategy=lambda t: W.program(max_steps=mx), examples=(1500, 32000), shards=(6, 16)),
    ]
