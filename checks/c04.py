"""C04 — dtype inference and promotion form an order-independent lattice."""
import io
import itertools
from datetime import date, datetime
from decimal import Decimal
from fractions import Fraction

from hypothesis import strategies as st

from harness.loader import load
from harness.runner import Part
from harness import values as V
from harness.opaque import OpaqueA, OpaqueB, OpaqueSub
from harness.refmodel import ref_dtype, join_kind, leq_kind

S = load()
from serif.typing import DataType, infer_dtype  # noqa: E402

PROPERTY = "C04"
LEVEL_TEXT = 'Bounded-exhaustive for the lattice core (all sequences up to length 4 quick / 5 thorough over 15 value classes; all (dtype, value, value) promotion triples) plus random sequences up to length 30 / 200 with permutations and result columns of arithmetic, joins, aggregate, window, CSV.'
LEVEL_NOTE = 'Order independence beyond the enumerated length rests on the exhaustively checked commutation law plus random search; kind of a value = exact Python type.'
DESIGN_REF = "DESIGN.md §5 C04"
RULE = ("exhaustive: every sequence over 15 value classes (one representative per kind incl. None) up to "
        "length 4 (thorough 5) and every (dtype, value[, value]) promotion pair/triple; random: lists up to "
        "length 30/200 over the full value universe with a drawn permutation, plus result columns of "
        "arithmetic / joins / aggregate / window / read_csv. Non-trivial = the sequence holds >=2 distinct "
        "kinds or a None (for permutation cases: and the permutation moves the first element); distinct = "
        "distinct sequence / state / program encoding.")
ASSUMPTIONS = [
    "kind of a value = its exact Python type (subclass instances such as IntEnum are outside the asserted domain)",
    "an all-None or empty sequence is typed object? (documented in infer_dtype); an empty Vector may report no schema",
    "order independence beyond the enumerated length rests on the exhaustively checked commutation law plus random sequences",
]

REPS = [None, True, 1, 1.5, 1j, "s", b"b", date(2020, 1, 2), datetime(2020, 1, 2, 3, 4), Decimal("1"),
        OpaqueA(1), OpaqueB(1), [1], (1,), {"k": 1}, bytearray(b"b"), Fraction(1, 2), OpaqueSub(1)]
KINDS = [bool, int, float, complex, str, bytes, date, datetime, Decimal, OpaqueA, OpaqueB, list, tuple, dict, object, bytearray, Fraction, OpaqueSub]


def _dt(x):
    return None if x is None else (x.kind, x.nullable)


def _name(dt):
    return "none" if dt is None else f"{dt[0].__name__}{'?' if dt[1] else ''}"


def _check_seq(seq, ctx, where):
    ctx.ev()
    want = ref_dtype(seq)
    try:
        got_v = _dt(S.Vector(list(seq)).schema())
        got_i = _dt(infer_dtype(list(seq)))
    except Exception as e:  # noqa: BLE001
        return ctx.fail(f"{where}/raised/{type(e).__name__}", f"seq={seq!r}: {e}")
    if got_v != want:
        lead = "leading-none" if (seq and seq[0] is None) else "other"
        return ctx.fail(f"{where}/vector-schema/{lead}/got-{_name(got_v)}",
                        f"Vector({seq!r}).schema() = {got_v}, lattice says {want}")
    if got_i != want:
        lead = "leading-none" if (seq and seq[0] is None) else "other"
        return ctx.fail(f"{where}/infer_dtype/{lead}/got-{_name(got_i)}",
                        f"infer_dtype({seq!r}) = {got_i}, lattice says {want}")
    return False


# ---------------------------------------------------------------- part 1: exhaustive sequences
def _seq_bound(tier):
    return 4 if tier == "quick" else 5


def enum_seq_cases(tier):
    yield {"short": True}
    for a in range(len(REPS)):
        for b in range(len(REPS)):
            yield {"prefix": [a, b], "suffix_max": _seq_bound(tier) - 2}


def run_enum_seq(case, ctx):
    if case.get("short"):
        for a in range(len(REPS)):
            _check_seq([REPS[a]], ctx, "enum-seq")
            if REPS[a] is None:
                ctx.nontrivial("0")
        return
    pre = [REPS[i] for i in case["prefix"]]
    for n in range(case["suffix_max"] + 1):
        for suf in itertools.product(range(len(REPS)), repeat=n):
            seq = pre + [REPS[i] for i in suf]
            if _check_seq(seq, ctx, "enum-seq"):
                return
            kinds = {type(x) for x in seq}
            if len(kinds) >= 2:
                ctx.nontrivial(",".join(map(str, suf)))


# ---------------------------------------------------------------- part 2: exhaustive promotion laws
def enum_promote_cases(tier):
    for ki in range(len(KINDS)):
        for nullable in (False, True):
            yield {"kind": ki, "nullable": nullable}


def run_enum_promote(case, ctx):
    s = DataType(KINDS[case["kind"]], nullable=case["nullable"])
    for a in REPS:
        ctx.ev()
        r = s.promote_with(a)
        if a is None:
            want = (s.kind, True)
        else:
            want = (join_kind(s.kind, type(a)), s.nullable)
        if _dt(r) != want:
            return ctx.fail(f"promote/result/{_name(_dt(s))}+{type(a).__name__}",
                            f"{s!r}.promote_with({a!r}) = {r!r}, lattice join says {want}")
        if not leq_kind(s.kind, r.kind):
            return ctx.fail("promote/narrows", f"{s!r}.promote_with({a!r}) = {r!r}")
        if s.nullable and not r.nullable:
            return ctx.fail("promote/drops-nullable", f"{s!r}.promote_with({a!r}) = {r!r}")
        if _dt(r.promote_with(a)) != _dt(r):
            return ctx.fail("promote/not-idempotent", f"{s!r} with {a!r} twice")
        ctx.nontrivial(f"a{REPS.index(a)}")
        for b in REPS:
            ctx.ev()
            ab = s.promote_with(a).promote_with(b)
            ba = s.promote_with(b).promote_with(a)
            if _dt(ab) != _dt(ba):
                return ctx.fail("promote/not-commutative", f"{s!r}: {a!r},{b!r} -> {ab!r} but {b!r},{a!r} -> {ba!r}")


# ---------------------------------------------------------------- part 3: random sequences + permutation
@st.composite
def perm_case(draw, tier="quick"):
    kinds = draw(st.lists(st.sampled_from(V.ALL_KINDS), min_size=1, max_size=3, unique=True))
    big = tier == "thorough" and draw(st.integers(0, 9)) == 0
    n = draw(st.integers(1, 200 if big else (30 if tier == "thorough" else 12)))
    elem = st.one_of(st.none(), *[V.SCALARS[k] for k in kinds]) if draw(st.booleans()) else \
        st.one_of(*[V.SCALARS[k] for k in kinds])
    xs = draw(st.lists(elem, min_size=n, max_size=n))
    if draw(st.integers(0, 7)) == 0:
        # long and nearly uniform: one value repeated 65..140 times, one or two values of a neighbouring class somewhere
        # (inference must not depend on the length, nor on where the odd value sits)
        lo, hi = draw(st.sampled_from([("date", "datetime"), ("bool", "int"), ("int", "float"), ("float", "complex"), ("int", "str"),
                                       ("datetime", "date"), ("int", "bool")]))
        n = draw(st.integers(65, 140))
        xs = [draw(V.SCALARS[lo])] * n
        for _ in range(draw(st.integers(1, 2))):
            xs[draw(st.sampled_from([n - 1, 0, n // 2, 64, min(65, n - 1)]))] = draw(st.one_of(V.SCALARS[hi], V.SCALARS[hi], st.none()))
        perm = list(range(n - 1, -1, -1)) if draw(st.booleans()) else list(range(1, n)) + [0]
        return {"xs": xs, "perm": perm}
    perm = draw(st.permutations(list(range(n))))
    return {"xs": xs, "perm": perm}


def run_perm(case, ctx):
    xs = case["xs"]
    # Vector.new(x, n) holds [x] * n: typed by the same rule as those values
    for x in xs[:2]:
        for n in (1, 3):
            ctx.ev()
            try:
                v = S.Vector.new(x, n)
            except Exception:  # noqa: BLE001
                continue
            if isinstance(v, S.Vector) and not isinstance(v, S.Table) and len(v) == n:
                want = ref_dtype([x] * n)
                if _dt(v.schema()) != want:
                    return ctx.fail(f"vector-new/{'none' if x is None else 'value'}/got-{_name(_dt(v.schema()))}", f"Vector.new({x!r}, {n}).schema() = {v.schema()}, its values give {want}")
    ys = [xs[i] for i in case["perm"]]
    if _check_seq(xs, ctx, "random-seq"):
        return
    if _check_seq(ys, ctx, "random-seq"):
        return
    kinds = {type(x) for x in xs}
    if len(kinds) >= 2 and case["perm"][0] != 0:
        ctx.nontrivial()
    ctx.label("leading_none", int(xs[0] is None or ys[0] is None))
    ctx.label("mixed_kinds", int(len(kinds - {type(None)}) >= 2))


# ---------------------------------------------------------------- part 4: results typed by the same rule
@st.composite
def result_case(draw, tier="quick"):
    op = draw(st.sampled_from(["arith", "join", "agg", "csv", "concat"]))
    n = draw(st.integers(1, 5))
    num = st.sampled_from(["bool", "int", "float"])
    if op == "arith":
        ka, kb = draw(num), draw(num)
        a = draw(V.column(kind=ka, min_size=n, max_size=n, elements=V.MODERATE[ka]))[1]
        b = draw(V.column(kind=kb, min_size=n, max_size=n, elements=V.MODERATE[kb]))[1]
        return {"op": op, "a": a, "b": b, "scalar": draw(st.one_of(V.small_ints, V.small_floats))}
    if op == "concat":
        ka = draw(st.sampled_from(["bool", "int", "float", "str", "date", "datetime"]))
        kb = ka if draw(st.booleans()) else draw(st.sampled_from(["bool", "int", "float", "str", "date", "datetime"]))
        return {"op": op, "a": draw(V.column(kind=ka, min_size=n, max_size=n))[1], "b": draw(V.column(kind=kb, min_size=1, max_size=4))[1]}
    if op == "join":
        m = draw(st.integers(1, 5))
        keys = st.one_of(st.integers(0, 3), st.none())
        return {"op": op,
                "lk": draw(st.lists(keys, min_size=n, max_size=n)), "lv": draw(V.column(kind=draw(num), min_size=n, max_size=n))[1],
                "rk": draw(st.lists(keys, min_size=m, max_size=m)), "rv": draw(V.column(kinds=["int", "str", "float"], min_size=m, max_size=m))[1]}
    if op == "agg":
        keys = st.one_of(st.integers(0, 2), st.none())
        return {"op": op, "k": draw(st.lists(keys, min_size=n, max_size=n)),
                "v": draw(st.one_of(
                    V.column(kind="float", min_size=n, max_size=n, elements=st.one_of(V.small_ints, V.small_floats)),
                    V.column(kind="complex", min_size=n, max_size=n), V.column(kind="fraction", min_size=n, max_size=n),
                    V.column(kind="decimal", min_size=n, max_size=n), V.column(kind="bool", min_size=n, max_size=n)))[1]}
    cells = st.sampled_from(["1", "2", "1.5", "x", "", " ", "1e3", "-4", "y z"])
    rows = draw(st.lists(st.lists(cells, min_size=2, max_size=2), min_size=1, max_size=5))
    return {"op": op, "rows": rows}


def _check_cols(t, ctx, where):
    if not isinstance(t, S.Table):
        return False
    for i, col in enumerate(t.cols()):
        vals = list(col)
        if not vals:
            continue
        ctx.ev()
        want = ref_dtype(vals)
        got = _dt(col.schema())
        if got != want:
            lead = "leading-none" if vals[0] is None else "other"
            return ctx.fail(f"result/{where}/{lead}/got-{_name(got)}",
                            f"{where} result column {i} holds {vals!r} but reports {got}; lattice says {want}")
    return False


def run_result(case, ctx):
    op = case["op"]
    Vector, Table = S.Vector, S.Table
    if op == "arith":
        a, b = Vector(case["a"]), Vector(case["b"])
        import operator as o
        sc = case["scalar"]
        same_kind_scalars = [x for x in case["a"] if x is not None][:1] + [-1, 2, 0.5, -2.5, True]
        for name, f in (("add", o.add), ("sub", o.sub), ("mul", o.mul), ("truediv", o.truediv),
                        ("floordiv", o.floordiv), ("mod", o.mod), ("pow", o.pow)):
            forms = [(b, "vec"), (sc, "scalar"), (case["b"], "list")] + [(x, "scalar") for x in same_kind_scalars]
            forms += [(sc, "rscalar")] + [(x, "rscalar") for x in same_kind_scalars]
            for rhs, tag in forms:
                try:
                    r = f(rhs, a) if tag == "rscalar" else f(a, rhs)
                except Exception:  # noqa: BLE001  (ZeroDivisionError etc.: Python-undefined)
                    ctx.python_undefined()
                    continue
                vals = list(r)
                ctx.ev()
                want, got = ref_dtype(vals), _dt(r.schema())
                if got != want:
                    return ctx.fail(f"result/arith-{tag}/got-{_name(got)}-for-{_name(want)}",
                                    f"{name}: values {vals!r} reported as {got}")
        if {type(x) for x in case["a"]} != {type(x) for x in case["b"]}:
            ctx.nontrivial()
        return
    if op == "concat":
        # << : the result is typed by the rule applied to all its values (a None on either side makes it nullable, kinds join)
        a = Vector(list(case["a"]))
        for form, rhs in (("vector", Vector(list(case["b"]))), ("list", list(case["b"])), ("tuple", tuple(case["b"]))):
            ctx.ev()
            try:
                r = a << rhs
            except Exception:  # noqa: BLE001  (kinds that do not stack)
                ctx.label("concat_refused")
                continue
            vals = list(r)
            if len(vals) != len(case["a"]) + len(case["b"]) or isinstance(r, Table):
                continue
            # << promotes the left operand's dtype with the appended values: an all-None left operand is object? (the top of
            # the lattice) and stays there; in every other case promotion and inference over all values coincide
            want, got = ref_dtype(vals), _dt(r.schema())
            if all(x is None for x in case["a"]):
                want = (object, True)
            if got != want:
                why = "nullable-dropped" if (got is not None and got[0] is want[0]) else "kind"
                return ctx.fail(f"result/concat-{form}/{why}/got-{_name(got)}-for-{_name(want)}", f"{case['a']!r} << {case['b']!r} ({form}): values {vals!r} reported as {got}")
        # one scalar at a time: the same fold, step by step
        r = a
        folded = ref_dtype(list(case["a"])) if not all(x is None for x in case["a"]) else (object, True)
        for x in case["b"]:
            ctx.ev()
            try:
                r = r << x
            except Exception:  # noqa: BLE001
                ctx.label("concat_refused")
                break
            if isinstance(r, Table):
                break
            if x is None:
                folded = (folded[0], True)
            elif folded[0] is not object:
                from harness.refmodel import join_kind as _jk
                folded = (_jk(folded[0], type(x)), folded[1])
            got = _dt(r.schema())
            if got != folded:
                why = "nullable" if (got is not None and got[0] is folded[0]) else "kind"
                return ctx.fail(f"result/concat-scalar/{why}/got-{_name(got)}-for-{_name(folded)}",
                                f"{case['a']!r} << ... << {x!r}: values {list(r)!r} reported as {got}")
        if None in case["b"] and None not in case["a"]:
            ctx.nontrivial()
        return
    if op == "join":
        L = Table({"k": case["lk"], "lv": case["lv"]})
        R = Table({"k": case["rk"], "rv": case["rv"]})
        for kind in ("inner_join", "join", "full_join"):
            try:
                t = getattr(L, kind)(R, "k", "k", expect="many_to_many")
            except S.SerifTypeError as e:
                # a refusal is legitimate only when the key kinds really differ (all-None vs int)
                lk, rk = ref_dtype(case["lk"])[0], ref_dtype(case["rk"])[0]
                if lk is rk:
                    return ctx.fail(f"result/{kind}/key-dtype-refused", f"keys {case['lk']} / {case['rk']}: {e}")
                continue
            if _check_cols(t, ctx, kind):
                return
        if None in case["lk"] or None in case["rv"] or set(case["lk"]) - set(case["rk"]):
            ctx.nontrivial()
        return
    if op == "agg":
        T = Table({"k": case["k"], "v": case["v"]})
        for meth in ("aggregate", "window"):
            for kw in ({"sum_over": "v"}, {"mean_over": "v"}, {"min_over": "v"}, {"max_over": "v"}, {"stdev_over": "v"}, {"count_over": "v"},
                       {"sum_over": "v", "mean_over": "v", "count_over": "v"}):
                try:
                    t = getattr(T, meth)(over="k", **kw)
                except Exception:  # noqa: BLE001  (min of complex, Decimal ** 0.5, ...: Python-undefined)
                    ctx.python_undefined()
                    continue
                if _check_cols(t, ctx, meth):
                    return
        if None in case["v"] or None in case["k"]:
            ctx.nontrivial()
        return
    text = "a,b\n" + "".join(",".join(r) + "\n" for r in case["rows"])
    t = S.read_csv(io.StringIO(text))
    if _check_cols(t, ctx, "read_csv"):
        return
    if any(c.strip() == "" for r in case["rows"] for c in r):
        ctx.nontrivial()


def parts(tier):
    L = _seq_bound(tier)
    return [
        Part("enum_seq", run_enum_seq, enumerate=enum_seq_cases, shards=(8, 16), exhaustive=True,
             space=f"all sequences of length 0..{L} over {len(REPS)} value classes "
                   f"({sum(len(REPS) ** k for k in range(L + 1))} sequences): Vector(seq).schema() == infer_dtype(seq) == lattice join"),
        Part("enum_promote", run_enum_promote, enumerate=enum_promote_cases, shards=(2, 4), exhaustive=True,
             space=f"all (dtype, a, b): {len(KINDS)} kinds x nullable x {len(REPS)}^2 values: join, monotone, nullable kept, idempotent, commutative"),
        Part("random_perm", run_perm, strategy=lambda t: perm_case(t), examples=(1500, 40000), shards=(3, 16)),
        Part("results", run_result, strategy=lambda t: result_case(t), examples=(1200, 30000), shards=(3, 16)),
    ]
