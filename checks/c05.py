"""C05 — elementwise operations equal the Python scalar operation, shape preserved."""
import operator
from datetime import date, timedelta

from hypothesis import strategies as st

from harness.loader import load
from harness.runner import Part
from harness import build as B
from harness import values as V
from harness import relational as R
from harness.refmodel import freeze, same

S = load()

PROPERTY = "C05"
LEVEL_TEXT = 'Exploration: generated operand pairs x exhaustive inner loop over 7 operators x 7 operand forms + unary + length-mismatch + table-left forms; every public str/int/float/date method with generated argument tuples. Exact comparison with the Python scalar result.'
LEVEL_NOTE = 'Operator/operand combinations for which Python itself raises are counted as python_undefined and skipped.'
DESIGN_REF = "DESIGN.md §5 C05"
ENGINE = "elementwise"
TECHNIQUE = "property-based testing: generated operand pairs x exhaustive inner loop over operators and operand forms, oracle = the Python scalar operation per element; broadcast methods enumerated from dir(str/int/float/date) with generated arguments"
RULE = ("operand pairs from the Python-defined matrix (numeric x numeric over bool/int/float/complex, str+str, str*int, date-date, "
        "date+-timedelta, date+int days) with None sprinkled into either side, lengths 0..8 (thorough: occasionally 50..200); each "
        "example runs 7 binary operators x 7 operand forms (vector, scalar, list, tuple, reflected scalar/list/tuple) + 3 unary "
        "operators + length-mismatch forms + table-left forms. Methods: every public name of str/int/float/date x generated "
        "argument tuples (those Python rejects are counted python_undefined). Non-trivial = reflected non-commutative operator, "
        "mixed kinds, a None, or length 0 / >=50; method case with a None and >=2 distinct values; distinct = case encoding.")
ASSUMPTIONS = [
    "an operator/operand combination is asserted only when Python defines the scalar operation for every element pair (ZeroDivisionError, OverflowError, TypeError in the reference => python_undefined, skipped)",
    "results are compared exactly (type and value, nan==nan, signed zeros distinguished); date + int means 'add days' as the statement names it",
    "broadcast methods are asserted on vectors that serif types as str/int/float/date (at least one non-None element, or an explicitly typed empty vector); classmethods/non-deterministic names (today, from*) and names Vector defines itself (max, min) are excluded",
]

BIN = [("add", operator.add), ("sub", operator.sub), ("mul", operator.mul), ("truediv", operator.truediv),
       ("floordiv", operator.floordiv), ("mod", operator.mod), ("pow", operator.pow)]
UNARY = [("neg", operator.neg), ("pos", operator.pos), ("abs", operator.abs)]
NONCOMM = {"sub", "truediv", "floordiv", "mod", "pow"}

num_el = {
    "bool": st.booleans(),
    "int": st.one_of(st.integers(-4, 6), st.integers(-4, 6), st.sampled_from([2 ** 31, -(2 ** 59), 10 ** 18])),
    "float": st.one_of(V.small_floats, V.small_floats, st.sampled_from([-0.0, 1e308, 5e-324, 0.1, 1e-3]),
                       st.floats(allow_nan=False, allow_infinity=False, width=64)),
    "complex": V.complexes,
}
# a column of one dtype whose elements are of different rungs of the ladder (serif keeps the raw values: Vector([1, 2.5]) is
# a float vector still holding the int 1), incl. ints beyond 2**53 that a float conversion would round
num_el["mix"] = st.one_of(st.booleans(), st.integers(-4, 6), V.small_floats, st.sampled_from([2 ** 53 + 1, -(2 ** 53) - 1, 0.5]))
num_el["mixc"] = st.one_of(st.integers(-4, 6), V.small_floats, V.complexes)


@st.composite
def operand_case(draw, tier="quick"):
    fam = draw(st.sampled_from(["num", "num", "num", "str", "strint", "date_date", "date_td", "date_int", "exact", "bytes", "datetime_td", "strfmt"]))
    big = draw(st.integers(0, 14 if tier == "thorough" else 29)) == 0
    # mostly short; now and then just past the sizes at which implementations like to switch strategy (64 / 65, 50..200)
    n = draw(st.integers(50, 200) if tier == "thorough" else st.integers(63, 70)) if big else draw(st.one_of(st.integers(0, 8), st.sampled_from([0, 1, 2])))
    if fam == "num":
        ka, kb = draw(st.sampled_from(list(num_el))), draw(st.sampled_from(list(num_el)))
        ea, eb = num_el[ka], num_el[kb]
        if draw(st.booleans()):
            eb = eb.filter(lambda x: x != 0) if kb != "bool" else st.just(True)
        if kb in ("int", "float") and draw(st.booleans()):
            eb = st.integers(-3, 6) if kb == "int" else st.sampled_from([0.5, 2.0, -1.0, 3.0])
    elif fam == "exact":
        # object-typed columns of exact numbers (Decimal with Decimal / int, Fraction with Fraction / int)
        ka = draw(st.sampled_from(["decimal", "fraction"]))
        kb = draw(st.sampled_from([ka, "smallint"]))
        pool = {"decimal": V.decimals, "fraction": V.fractions, "smallint": st.integers(1, 4)}
        ea, eb = pool[ka], pool[kb]
    elif fam == "bytes":
        ka = kb = "bytes"
        ea = eb = V.byteses
    elif fam == "strfmt":
        # text % value: printf-style formatting is an arithmetic operator too (and formats anything - None included - if asked to)
        ka, kb = "str", "fmtarg"
        ea, eb = st.sampled_from(["%s pears", "<%r>", "%s", "n=%s;"]), st.one_of(st.integers(-3, 9), V.simple_strs, V.small_floats)
    elif fam == "str":
        ka = kb = "str"
        ea = eb = V.strs
    elif fam == "strint":
        ka, kb = "str", "int"
        ea, eb = V.simple_strs, st.integers(-1, 4)
    elif fam == "date_date":
        ka = kb = "date"
        ea = eb = V.dates
    elif fam == "date_td":
        ka, kb = "date", "timedelta"
        ea, eb = V.dates, V.timedeltas
    elif fam == "datetime_td":
        ka, kb = "datetime", "timedelta"
        ea, eb = V.datetimes, V.timedeltas
    else:
        ka, kb = "date", "int"
        ea, eb = V.dates, st.integers(-400, 400)
    a = draw(st.lists(ea, min_size=n, max_size=n))
    b = draw(st.lists(eb, min_size=n, max_size=n))
    a = [None if f else x for x, f in zip(a, draw(V.none_mask(n)))]
    b = [None if f else x for x, f in zip(b, draw(V.none_mask(n)))]
    return {"fam": fam, "ka": ka, "kb": kb, "a": a, "b": b, "sa": draw(ea), "sb": draw(eb),
            "extra": draw(st.integers(1, 2)), "tcols": draw(st.integers(1, 3))}


class _TooExpensive(ArithmeticError):
    pass


def _ref(op, xs, ys):
    """elementwise reference; raises whatever Python raises"""
    if op is operator.pow:
        for x, y in zip(xs, ys):
            if type(y) is int and abs(y) > 8 and type(x) in (int, bool):
                raise _TooExpensive()       # int ** huge int: unbounded work, not part of the domain
    return [None if (x is None or y is None) else op(x, y) for x, y in zip(xs, ys)]


def _eq_exact(got, want):
    return len(got) == len(want) and all(same(g, w, signed_zero=True) for g, w in zip(got, want))


def _undefined(e):
    return isinstance(e, (ZeroDivisionError, OverflowError, TypeError, ValueError, ArithmeticError))


def _ops_for(fam):
    if fam == "num":
        return BIN
    if fam == "exact":
        return BIN[:3]
    if fam == "bytes":
        return [BIN[0]]
    if fam == "strfmt":
        return [BIN[5]]
    if fam == "str":
        return [BIN[0]]
    if fam == "strint":
        return [BIN[2]]
    if fam == "date_date":
        return [BIN[1]]
    if fam in ("date_td", "datetime_td"):
        return [BIN[0], BIN[1]]
    return [BIN[0]]


def run_ops(case, ctx):
    a, b, fam = case["a"], case["b"], case["fam"]
    n = len(a)
    if fam == "date_int":
        return run_date_int(case, ctx)
    va = B.vector(a) if n else S.Vector([])
    vb = B.vector(b) if n else S.Vector([])
    snap_a, snap_b = [freeze(x) for x in va], [freeze(x) for x in vb]
    typed = va.schema() is not None and va.schema().kind is not object
    for name, op in _ops_for(fam):
        forms = [
            ("vector", lambda: op(va, vb), a, b, False),
            ("scalar", lambda: op(va, case["sb"]), a, [case["sb"]] * n, False),
            ("list", lambda: op(va, list(b)), a, b, False),
            ("tuple", lambda: op(va, tuple(b)), a, b, False),
            ("rscalar", lambda: op(case["sa"], vb), [case["sa"]] * n, b, True),
            ("rlist", lambda: op(list(a), vb), a, b, True),
            ("rtuple", lambda: op(tuple(a), vb), a, b, True),
            ("self", lambda: op(va, va), a, a, False),             # the very same object on both sides
        ]
        for form, call, xs, ys, reflected in forms:
            if form == "rscalar" and fam == "strfmt":
                continue          # "text" % vector is str formatting of the whole vector (str.__mod__ never defers to the vector)
            if n == 0 and form in ("scalar", "rscalar", "vector", "list", "tuple", "rlist", "rtuple") and not typed:
                # an untyped empty vector: only shape is asserted below
                pass
            try:
                want = _ref(op, xs, ys)
            except Exception as e:  # noqa: BLE001
                if _undefined(e):
                    ctx.python_undefined()
                    continue
                raise
            if reflected and name == "mul" and fam == "strint":
                continue
            if form in ("rlist", "rtuple") and name in ("add", "mul") and n > 0 and fam in ("str", "strint"):
                pass
            ctx.ev()
            try:
                res = call()
            except Exception as e:  # noqa: BLE001
                nn = "with-none" if (None in xs or None in ys) else "no-none"
                return ctx.fail(f"binary/{form}/raised/{type(e).__name__}/{nn}/{fam}",
                                f"{xs} {name} {ys} ({form}): {type(e).__name__}: {e}")
            if not isinstance(res, S.Vector) or isinstance(res, S.Table):
                if n == 0:
                    continue
                return ctx.fail(f"binary/{form}/result-type", f"{type(res).__name__}")
            got = list(res)
            if not _eq_exact(got, want):
                if len(got) != len(want):
                    return ctx.fail(f"binary/{form}/length", f"{xs} {name} {ys}: got {got}")
                nn = "none-position" if any((w is None) != (g is None) for g, w in zip(got, want)) else "value"
                return ctx.fail(f"binary/{form}/{name}/{nn}", f"{xs} {name} {ys} ({form}): got {got} want {want}")
            if res is va or res is vb:
                return ctx.fail(f"binary/{form}/not-a-new-object", name)
            if (reflected and name in NONCOMM) or None in xs or None in ys or n == 0 or n >= 50 or case["ka"] != case["kb"]:
                ctx.nontrivial()
        # length mismatch: error for every operand form, never truncation
        longer = list(b) + [case["sb"]] * case["extra"]
        shorter = list(b)[:-1] if n > 1 else None
        for wrong in (longer, shorter):
            if wrong is None:
                continue
            for form, call in (("vector", lambda: op(va, S.Vector(wrong))), ("list", lambda: op(va, wrong)),
                               ("tuple", lambda: op(va, tuple(wrong))), ("rlist", lambda: op(wrong, va)),
                               ("rvector", lambda: op(S.Vector(wrong), va))):
                ctx.ev()
                try:
                    r = call()
                except Exception:  # noqa: BLE001
                    continue
                if isinstance(r, S.Vector):
                    return ctx.fail(f"binary/{form}/length-mismatch-accepted",
                                    f"len {n} {name} len {len(wrong)} -> {list(r) if not isinstance(r, S.Table) else 'table'}")
    if [freeze(x) for x in va] != snap_a or [freeze(x) for x in vb] != snap_b:
        return ctx.fail("binary/operand-modified", "an operand changed")
    # unary
    if fam == "num" and n:
        for name, op in UNARY:
            try:
                want = [None if x is None else op(x) for x in a]
            except Exception:  # noqa: BLE001
                ctx.python_undefined()
                continue
            ctx.ev()
            try:
                res = op(va)
            except Exception as e:  # noqa: BLE001
                nn = "with-none" if None in a else "no-none"
                return ctx.fail(f"unary/{name}/raised/{type(e).__name__}/{nn}", f"{name} {a}: {e}")
            if not _eq_exact(list(res), want):
                return ctx.fail(f"unary/{name}/value", f"{name} {a}: got {list(res)} want {want}")
            if res is va:
                return ctx.fail("unary/not-a-new-object", name)
    # table-left: the same operation column by column
    if fam in ("num", "str") and n:
        k = case["tcols"]
        cols = [(f"c{i}", a if i % 2 == 0 else b) for i in range(k)]
        t = R.build_table(cols)
        t2 = R.build_table([(f"c{i}", b if i % 2 == 0 else a) for i in range(k)])
        for name, op in _ops_for(fam):
            for form, rhs, ys_of in (("table-scalar", case["sb"], lambda i: [case["sb"]] * n),
                                     ("table-table", t2, lambda i: (b if i % 2 == 0 else a))):
                try:
                    want = [_ref(op, cols[i][1], ys_of(i)) for i in range(k)]
                except Exception as e:  # noqa: BLE001
                    if _undefined(e):
                        ctx.python_undefined()
                        continue
                    raise
                ctx.ev()
                try:
                    res = op(t, rhs)
                except Exception as e:  # noqa: BLE001
                    return ctx.fail(f"binary/{form}/raised/{type(e).__name__}", f"{cols} {name}: {e}")
                if not isinstance(res, S.Table) or len(res.cols()) != k:
                    return ctx.fail(f"binary/{form}/shape", f"{type(res).__name__}")
                for i in range(k):
                    if not _eq_exact(list(res.cols()[i]), want[i]):
                        return ctx.fail(f"binary/{form}/{name}/value", f"column {i}: got {list(res.cols()[i])} want {want[i]}")
        # tables of different width must not combine
        if k >= 2:
            ctx.ev()
            try:
                r = t + R.build_table(cols[:-1])
            except Exception:  # noqa: BLE001
                r = None
            if r is not None:
                return ctx.fail("binary/table-table/width-mismatch-accepted", f"{k} vs {k - 1} columns")


def run_date_int(case, ctx):
    a, b = case["a"], case["b"]
    n = len(a)
    if not n or all(x is None for x in a):
        return
    va = S.Vector(list(a))

    def shift(d, k):
        return None if (d is None or k is None) else date.fromordinal(d.toordinal() + k)

    forms = [("scalar", lambda: va + case["sb"], [case["sb"]] * n)]
    if not all(x is None for x in b):
        forms.append(("vector", lambda: va + S.Vector(list(b)), b))
    for form, call, ys in forms:
        try:
            want = [shift(x, y) for x, y in zip(a, ys)]
        except Exception:  # noqa: BLE001
            ctx.python_undefined()
            continue
        ctx.ev()
        try:
            res = call()
        except Exception as e:  # noqa: BLE001
            return ctx.fail(f"date-plus-days/{form}/raised/{type(e).__name__}", f"{a} + {ys}: {e}")
        if not _eq_exact(list(res), want):
            return ctx.fail(f"date-plus-days/{form}/value", f"{a} + {ys}: got {list(res)} want {want}")
        if None in a or None in ys:
            ctx.nontrivial()
    # length mismatch
    ctx.ev()
    try:
        r = va + S.Vector(list(b) + [1])
    except Exception:  # noqa: BLE001
        r = None
    if r is not None:
        return ctx.fail("date-plus-days/length-mismatch-accepted", f"{list(r)}")


# ---------------------------------------------------------------- broadcast methods and properties
from datetime import datetime as _dt
# floatmix / datetimemix: columns typed float / datetime that still hold elements of a lower rung (serif keeps raw values)
TYPES = {"str": str, "int": int, "float": float, "date": date, "floatmix": float, "datetimemix": _dt}
EXCLUDED = {"today", "fromisoformat", "fromordinal", "fromisocalendar", "fromtimestamp", "fromhex", "from_bytes",
            "max", "min", "resolution", "maketrans", "now", "utcnow", "combine", "strptime", "utcfromtimestamp"}
PROBE = {"str": "a b", "int": 5, "float": 1.5, "date": date(2020, 2, 28), "floatmix": 1.5, "datetimemix": _dt(2020, 2, 28, 12, 30)}
ARGS = [(), ("a",), ("b", "x"), (1,), (3, "*"), (5,), (["x", "y"],), ("%Y-%m",), ("ab",), ("utf-8",), (2, "big"),
        ({"a": 1},), ("", ), (" ",), ("a", 1), (0,),
        # start / end forms (find, rfind, index, rindex, count, startswith, endswith, replace with a count, split with a limit)
        ("a", 0, 2), ("a", 1, -1), ("b", None, 3), ("a", -3, None), ("a", "x", 1), ("a", 2, 2), (None, 1), (" ", 1)]
KWARGS = [{}, {}, {}, {"year": 2001}, {"sep": "a"}, {"maxsplit": 1}, {"keepends": True}, {"fillchar": "-"}]
METHOD_EL = {
    "str": st.one_of(st.text(alphabet="abAB _1x{}", max_size=5), st.sampled_from(["", "a b", "Ab", "a\nb", "ß", "x=1", "2020-01-02"])),
    "int": st.one_of(st.integers(-5, 300), st.sampled_from([0, 2 ** 40, -1, -2, -1, 0])),
    "float": st.one_of(V.small_floats, st.sampled_from([0.1, -0.0, 2.0, 1e10, 7.0])),
    "date": V.dates,
    "floatmix": st.one_of(V.small_floats, st.integers(-3, 9), st.sampled_from([0.1, 2 ** 53 + 1, True])),
    "datetimemix": st.one_of(V.datetimes, V.dates),
}


@st.composite
def method_case(draw, tier="quick"):
    k = draw(st.sampled_from(list(TYPES)))
    big = draw(st.integers(0, 9 if tier == "thorough" else 24)) == 0
    huge = draw(st.integers(0, 60)) == 0
    n = draw(st.integers(1001, 1040)) if huge else (draw(st.integers(101, 160)) if big else draw(st.integers(0, 6)))
    vals = draw(st.lists(METHOD_EL[k], min_size=n, max_size=n))
    mask = draw(V.none_mask(n))
    vals = [None if f else x for x, f in zip(vals, mask)]
    names = sorted(x for x in dir(TYPES[k]) if not x.startswith("_") and x not in EXCLUDED)
    generic = st.tuples(st.sampled_from(names), st.sampled_from(ARGS), st.sampled_from(KWARGS))
    if k == "str":
        # signature-aware calls: the (sub[, start[, end]]) family with every arity, incl. None and negative bounds
        sub = st.sampled_from(["a", "b", "ab", "", " ", "A"])
        lo, hi = st.sampled_from([None, 0, 1, 2, -3]), st.sampled_from([None, 1, 2, 4, -1])
        subargs = st.one_of(st.tuples(sub), st.tuples(sub, lo), st.tuples(sub, lo, hi))
        targeted = st.tuples(st.sampled_from(["find", "rfind", "index", "rindex", "count", "startswith", "endswith"]), subargs, st.just({}))
        pick = st.one_of(generic, generic, targeted)
    elif k == "int":
        targeted = st.tuples(st.just("to_bytes"), st.tuples(st.sampled_from([1, 2, 8]), st.sampled_from(["big", "little"])),
                             st.sampled_from([{}, {"signed": True}]))
        pick = st.one_of(generic, generic, generic, targeted)
    elif k in ("date", "datetimemix"):
        targeted = st.tuples(st.sampled_from(["replace", "strftime", "isoformat"]), st.sampled_from([(), ("%Y-%m-%d",), ("%d/%m",)]),
                             st.sampled_from([{}, {"year": 2001}, {"day": 1}, {"month": 2, "day": 28}]))
        pick = st.one_of(generic, generic, targeted)
    else:
        pick = generic
    picks = draw(st.lists(pick, min_size=4, max_size=10))
    return {"kind": k, "vals": vals, "picks": picks, "all_names": (not huge) and draw(st.integers(0, 5)) == 0}


def run_methods(case, ctx):
    k, vals = case["kind"], case["vals"]
    T = TYPES[k]
    if vals and all(x is None for x in vals):
        return          # serif types an all-None vector as object: methods are not reachable there
    v = B.vector(vals) if vals else S.Vector([], dtype=T)
    snap = [freeze(x) for x in v]
    names = sorted(x for x in dir(T) if not x.startswith("_") and x not in EXCLUDED)
    picks = [tuple(p) for p in case["picks"]]
    if case["all_names"]:
        picks = picks + [(nm, (), {}) for nm in names]
    for name, args, kw in picks:
        cls_attr = getattr(T, name)
        is_method = callable(cls_attr)
        if not is_method and (args or kw):
            args, kw = (), {}
        try:
            if is_method and not any(x is not None for x in vals):
                # no element can tell whether Python accepts this argument list: ask a probe element
                getattr(PROBE[k], name)(*args, **kw)
            if is_method:
                want = [None if x is None else getattr(x, name)(*args, **kw) for x in vals]
            else:
                want = [None if x is None else getattr(x, name) for x in vals]
        except Exception:  # noqa: BLE001
            ctx.python_undefined()
            continue
        ctx.ev()
        try:
            attr = getattr(v, name)
            res = attr(*args, **kw) if is_method else attr
        except Exception as e:  # noqa: BLE001
            nn = "with-none" if None in vals else "no-none"
            return ctx.fail(f"method/{k}.{name}/raised/{type(e).__name__}/{nn}", f"{vals}.{name}{args}{kw}: {e}")
        if isinstance(res, S.Table) or not isinstance(res, S.Vector):
            if not vals:
                continue
            # a method whose per-element results are themselves vectors/sequences may come back boxed differently
            return ctx.fail(f"method/{k}.{name}/result-type", f"{type(res).__name__} for {vals}.{name}{args}")
        got = list(res)
        if len(got) != len(want):
            return ctx.fail(f"method/{k}.{name}/length", f"{vals}.{name}{args}: {len(got)} results for {len(want)} elements")
        for i, (g, w) in enumerate(zip(got, want)):
            if not same(g, w):
                pos = "first" if i == 0 else ("last" if i == len(want) - 1 else "middle")
                nn = "none-position" if (g is None) != (w is None) else "value"
                return ctx.fail(f"method/{k}.{name}/{nn}/{pos}", f"{vals}.{name}{args}{kw}: element {i} got {g!r} want {w!r}")
        # the result is a new vector on every call: tampering with one result, or editing the operand
        # (also to a value that hash() cannot tell from the old one), must show / not show accordingly
        if got:
            try:
                res[0] = None
            except Exception:  # noqa: BLE001
                pass
            ctx.ev()
            try:
                attr2 = getattr(v, name)
                res2 = attr2(*args, **kw) if is_method else attr2
            except Exception as e:  # noqa: BLE001
                return ctx.fail(f"method/{k}.{name}/second-call-raised/{type(e).__name__}", str(e))
            if res2 is res or len(list(res2)) != len(want) or not all(same(g, w) for g, w in zip(res2, want)):
                return ctx.fail(f"method/{k}.{name}/result-not-fresh-on-second-call", f"{vals}.{name}{args}: second call gave {list(res2)[:6]}, expected {want[:6]}")
            twins = {-1: -2, -2: -1, 0: 2 ** 61 - 1, 1: 2 ** 61, 0.0: float(2 ** 61 - 1)}
            if k in ("int", "float") and vals[0] in twins and len(vals) <= 200:
                w = S.Vector(list(vals))
                try:
                    a1 = getattr(w, name)
                    (a1(*args, **kw) if is_method else a1)
                    w[0] = twins[vals[0]]
                    nv = list(w)
                    want2 = [None if x is None else (getattr(x, name)(*args, **kw) if is_method else getattr(x, name)) for x in nv]
                    a2 = getattr(w, name)
                    r3 = list(a2(*args, **kw) if is_method else a2)
                except Exception:  # noqa: BLE001
                    r3 = want2 = None
                if r3 is not None and not all(same(g, x) for g, x in zip(r3, want2)):
                    return ctx.fail(f"method/{k}.{name}/stale-after-operand-edit", f"{vals} -> {nv}: {name} gave {r3[:6]}, expected {want2[:6]}")
        if None in vals and len({repr(x) for x in vals}) > 2:
            ctx.nontrivial(name)
    ctx.label("size_gt_100", int(len(vals) > 100))
    ctx.label("size_gt_1000", int(len(vals) > 1000))
    ctx.label("with_none", int(None in vals))
    if [freeze(x) for x in v] != snap:
        return ctx.fail("method/operand-modified", "vector changed")


def parts(tier):
    return [
        Part("operators", run_ops, strategy=lambda t: operand_case(t), examples=(4000, 100000), shards=(8, 16)),
        Part("methods", run_methods, strategy=lambda t: method_case(t), examples=(3000, 60000), shards=(8, 16),
             floors={"with_none": 0.15, "size_gt_100": 0.015, "size_gt_1000": 0.004}),
    ]
