"""C06 — None is handled uniformly: propagates, compares False, is skipped by reductions."""
import math
import operator
from datetime import date
from datetime import datetime as datetime_

from hypothesis import strategies as st

from harness.loader import load
from harness.runner import Part
from harness import build as B
from harness import values as V
from harness import relational as R
from harness.refmodel import freeze, same, ref_agg, belongs, NUM, TMP
from checks import c05

S = load()

PROPERTY = "C06"
LEVEL_TEXT = 'Exploration: None-position algebra for arithmetic and comparisons, reductions against the None-free vector and the reference, mutual agreement of isna/dropna/fillna incl. nullable-declared vectors without None.'
LEVEL_NOTE = 'fillna may reject values incompatible with the column kind (rule 4.5).'
DESIGN_REF = "DESIGN.md §5 C06"
ENGINE = "elementwise"
TECHNIQUE = "property-based testing: vectors of every kind with a generated subset of positions set to None; oracle = None-position algebra (union for arithmetic, False for comparisons), reductions on the None-free vector, and mutual agreement of isna/dropna/fillna"
RULE = ("vectors of every kind (numeric, str, bytes, date, datetime, object-mixed) with None at a drawn subset of positions (empty "
        "subset, all positions, first position explicitly), both operands; inner loop over all arithmetic operators and operand forms "
        "of C05, six comparisons x Vector/list/scalar (incl. date vs ISO string), reductions sum/mean/min/max/stdev/any/all, the "
        "single-group aggregates, isna/dropna/fillna with compatible and incompatible fill values. Non-trivial = at least one None "
        "and one non-None element, or an all-None vector; distinct = case encoding.")
ASSUMPTIONS = [
    "arithmetic / comparison cases for which Python raises on the non-None elements are skipped (python_undefined)",
    "with no value left: sum == 0, mean and stdev are None, any is False, all is True; min/max may raise or return None but never a value",
    "fillna(x) may reject an x that is incompatible with the column kind (same / narrower / wider-on-a-ladder / anything for object columns are compatible); a bool column may reject a wider numeric x",
]

CMP = [("eq", operator.eq), ("ne", operator.ne), ("lt", operator.lt), ("le", operator.le), ("gt", operator.gt), ("ge", operator.ge)]


# ---------------------------------------------------------------- arithmetic: None exactly at the union of None positions
def run_arith(case, ctx):
    a, b, fam = case["a"], case["b"], case["fam"]
    n = len(a)
    if n == 0:
        return
    if fam == "date_int":
        # dates + days: a None on either side gives None at that position (the right operand is an int scalar or an int vector)
        if all(x is None for x in a):
            return
        va = S.Vector(list(a))
        forms = [("scalar", lambda: va + case["sb"], [case["sb"]] * n)]
        if not all(y is None for y in b):
            forms.append(("vector", lambda: va + S.Vector(list(b)), b))
        for form, call, ys in forms:
            ctx.ev()
            try:
                res = call()
            except Exception as e:  # noqa: BLE001
                return ctx.fail(f"arith/date-plus-days/{form}/raised/{type(e).__name__}", f"{a} + {ys}: {e}")
            got, want = [x is None for x in res], [x is None or y is None for x, y in zip(a, ys)]
            if got != want:
                return ctx.fail(f"arith/date-plus-days/{form}/none-positions", f"{a} + {ys}: None at {got}, expected at {want}")
        if None in a or None in b:
            ctx.nontrivial()
        return
    va, vb = B.vector(a), B.vector(b)
    for name, op in c05._ops_for(fam):
        forms = [
            ("vector", lambda: op(va, vb), a, b), ("scalar", lambda: op(va, case["sb"]), a, [case["sb"]] * n),
            ("list", lambda: op(va, list(b)), a, b), ("tuple", lambda: op(va, tuple(b)), a, b),
            ("rscalar", lambda: op(case["sa"], vb), [case["sa"]] * n, b), ("rlist", lambda: op(list(a), vb), a, b),
        ]
        for form, call, xs, ys in forms:
            if form == "rscalar" and name == "mul" and fam == "strint":
                continue
            if form == "rscalar" and fam == "strfmt":
                continue          # "text" % vector is str formatting of the whole vector (str.__mod__ never defers)
            try:
                c05._ref(op, xs, ys)
            except Exception:  # noqa: BLE001
                ctx.python_undefined()
                continue
            want = [x is None or y is None for x, y in zip(xs, ys)]
            ctx.ev()
            try:
                res = call()
            except Exception as e:  # noqa: BLE001
                return ctx.fail(f"arith/{form}/raised/{type(e).__name__}/{fam}", f"{xs} {name} {ys}: {e}")
            got = [x is None for x in res]
            if got != want:
                return ctx.fail(f"arith/{form}/none-positions", f"{xs} {name} {ys}: None at {got}, expected at {want}")
    if fam == "num":
        for name, op in c05.UNARY:
            try:
                [op(x) for x in a if x is not None]
            except Exception:  # noqa: BLE001
                continue
            ctx.ev()
            try:
                res = op(va)
            except Exception as e:  # noqa: BLE001
                return ctx.fail(f"unary/{name}/raised/{type(e).__name__}", f"{name} {a}: {e}")
            if [x is None for x in res] != [x is None for x in a]:
                return ctx.fail(f"unary/{name}/none-positions", f"{name} {a} -> {list(res)}")
    if len(va) != n:
        return ctx.fail("len/does-not-count-none", f"len={len(va)} for {a}")
    nn = sum(x is None for x in a) + sum(x is None for x in b)
    if nn and (nn < 2 * n or n):
        ctx.nontrivial()


# ---------------------------------------------------------------- comparisons: False at every None position
CMP_KINDS = ["bool", "int", "float", "str", "bytes", "date", "datetime", "complex"]


@st.composite
def cmp_case(draw, tier="quick"):
    n = draw(st.integers(1, 6))
    k = draw(st.sampled_from(CMP_KINDS))
    a = draw(V.column(kind=k, min_size=n, max_size=n))[1]
    # mostly the same kind on both sides; sometimes another kind (== and != are defined between any two Python values)
    kb = k if draw(st.integers(0, 3)) else draw(st.sampled_from(CMP_KINDS))
    b = draw(V.column(kind=kb, min_size=n, max_size=n))[1]
    return {"k": k, "kb": kb, "a": a, "b": b, "scalar": draw(V.SCALARS[k]), "iso": draw(st.sampled_from(["2020-02-28", "1999-01-01", "2030-12-31"]))}


def run_cmp(case, ctx):
    a, b, k = case["a"], case["b"], case["k"]
    if all(x is None for x in a) and False:
        return
    va = S.Vector(list(a))
    kb = case.get("kb", k)
    numeric = {"bool", "int", "float"}
    for name, op in CMP:
        if k == "complex" and name not in ("eq", "ne"):
            continue
        cross = kb != k and not (k in numeric and kb in numeric)
        if cross and name not in ("eq", "ne"):
            cross_forms = []          # ordering between unrelated kinds is a Python TypeError: outside the statement
        else:
            cross_forms = [("vector", S.Vector(list(b)), b), ("list", list(b), b), ("tuple", tuple(b), b)]
        if cross and ({k, kb} == {"date", "datetime"} or ({k, kb} & {"date", "datetime"} and "str" in (k, kb))):
            cross_forms = []          # temporal vs str: serif parses the text as an ISO date (its own, documented feature)
        if cross and {k, kb} == {"date", "datetime"}:
            cross_forms = []          # date vs datetime vectors dispatch differently by operand order (see C07 assumptions)
        forms = cross_forms + [("scalar", case["scalar"], [case["scalar"]] * len(a)), ("self", va, a)]
        if k == "date" and any(x is not None for x in a):
            forms.append(("iso-string", case["iso"], [case["iso"]] * len(a)))
        if k == "date" and a:
            # a vector of ISO texts with holes: None on either side compares False, and no comparison raises
            texts = [None if (i % 2 == 0 or x is None) and i % 3 != 1 else (x or case["scalar"]).isoformat() for i, x in enumerate(a)]
            if any(tx is not None for tx in texts):
                ctx.ev()
                try:
                    got_ = list(op(va, S.Vector(list(texts))))
                except Exception as e:  # noqa: BLE001
                    return ctx.fail(f"compare/iso-text-vector/raised/{type(e).__name__}", f"{a} {name} {texts}: {e}")
                bad_ = [i for i, (x, tx) in enumerate(zip(a, texts)) if (x is None or tx is None) and got_[i] is not False]
                if bad_:
                    return ctx.fail("compare/iso-text-vector/none-not-false", f"{a} {name} {texts}: position {bad_[0]} is {got_[bad_[0]]!r}")
        if k == "date":
            # text that is no ISO date: serif may refuse the comparison; whatever it returns, None positions compare False
            for txt in ("n/a", "", "01/06/2021"):
                ctx.ev()
                try:
                    got_ = list(op(va, txt))
                except Exception:  # noqa: BLE001
                    continue
                bad_ = [i for i, x in enumerate(a) if x is None and got_[i] is not False]
                if bad_:
                    return ctx.fail("compare/non-iso-text/none-not-false", f"{a} {name} {txt!r}: position {bad_[0]} is {got_[bad_[0]]!r}")
        for form, rhs, ys in forms:
            ctx.ev()
            try:
                res = op(va, rhs)
            except Exception as e:  # noqa: BLE001
                return ctx.fail(f"compare/{form}/raised/{type(e).__name__}/{k}", f"{a} {name} {ys}: {e}")
            got = list(res)
            for i, (x, y) in enumerate(zip(a, ys)):
                if (x is None or y is None) and got[i] is not False:
                    both = "both-none" if (x is None and y is None) else "one-none"
                    return ctx.fail(f"compare/{form}/none-not-false/{both}", f"{a} {name} {ys}: position {i} is {got[i]!r}")
            if any(type(g) is not bool for g in got):
                return ctx.fail(f"compare/{form}/non-bool-element", f"{a} {name} {ys}: {got}")
            sc = res.schema()
            if sc is None or sc.kind is not bool or sc.nullable:
                return ctx.fail(f"compare/{form}/result-dtype", f"{a} {name} {ys}: {sc}")
    if None in a or None in b:
        ctx.nontrivial()


# ---------------------------------------------------------------- reductions skip None; len counts it
RED_KINDS = ["bool", "int", "float", "str", "date", "bigint"]


@st.composite
def red_case(draw, tier="quick"):
    k = draw(st.sampled_from(RED_KINDS))
    n = draw(st.integers(0, 8))
    el = {"bool": st.booleans(), "int": st.integers(-6, 9), "float": V.small_floats, "str": V.simple_strs, "date": V.dates,
          "bigint": st.sampled_from([10 ** 8 + 1, 10 ** 8 + 2, 10 ** 8 + 5])}[k]
    vals = draw(st.lists(el, min_size=n, max_size=n))
    vals = [None if f else x for x, f in zip(vals, draw(V.none_mask(n)))]
    return {"k": k, "vals": vals}


def run_red(case, ctx):
    vals, k = case["vals"], case["k"]
    clean = [x for x in vals if x is not None]
    v = B.vector(vals)
    vc = S.Vector(list(clean))
    if len(v) != len(vals):
        return ctx.fail("len/does-not-count-none", f"len={len(v)} for {vals}")
    numeric = k in ("bool", "int", "float", "bigint")
    funcs = ["any", "all", "min", "max"] + (["sum", "mean", "stdev"] if numeric else [])
    tol = R.agg_tolerance(vals)
    for f in funcs:
        ctx.ev()
        try:
            got = getattr(v, f)()
            err = None
        except Exception as e:  # noqa: BLE001
            got, err = None, e
        if not clean:
            # nothing left after skipping None
            if f in ("min", "max"):
                if err is None and got is not None:
                    return ctx.fail(f"reduction/{f}/value-from-nothing", f"{vals}.{f}() = {got!r}")
                continue
            if err is not None:
                return ctx.fail(f"reduction/{f}/raised-on-no-values", f"{vals}.{f}(): {err}")
            want = {"sum": 0, "mean": None, "stdev": None, "any": False, "all": True}[f]
            if not same(got, want) and not (f == "sum" and got == 0):
                return ctx.fail(f"reduction/{f}/no-values", f"{vals}.{f}() = {got!r}, expected {want!r}")
            continue
        if err is not None:
            return ctx.fail(f"reduction/{f}/raised/{type(err).__name__}", f"{vals}.{f}(): {err}")
        want = {"any": lambda: any(clean), "all": lambda: all(clean)}.get(f, lambda: ref_agg(f, vals))()
        ref2 = getattr(vc, f)()
        ok = R.agg_close(got, want, tol) and R.agg_close(got, ref2, tol) if isinstance(want, float) else (same(got, want) and same(got, ref2))
        if not ok:
            return ctx.fail(f"reduction/{f}/none-not-skipped-or-wrong", f"{vals}.{f}() = {got!r}; None-free vector gives {ref2!r}; reference {want!r}")
    if numeric and len(clean) >= 1:
        ctx.ev()
        try:
            got = v.stdev(population=True)
        except Exception as e:  # noqa: BLE001
            return ctx.fail(f"reduction/stdev-population/raised/{type(e).__name__}", f"{vals}: {e}")
        if len(clean) < 2:
            want = None if len(clean) < 2 else 0.0
            ok = got is None or len(clean) == 1
        else:
            m = sum(clean) / len(clean)
            want = math.sqrt(sum((x - m) * (x - m) for x in clean) / len(clean))
            ok = got is not None and not isinstance(got, complex) and R.agg_close(got, want, tol)
        if not ok:
            return ctx.fail("reduction/stdev-population/none-not-skipped-or-wrong", f"{vals}.stdev(population=True) = {got!r}; over the non-None values it is {want!r}")
    # per-group aggregates (single group)
    if vals:
        t = R.build_table([("g", [0] * len(vals)), ("x", vals)])
        afuncs = ["min", "max", "count"] + (["sum", "mean", "stdev"] if numeric else [])
        for f in afuncs:
            ctx.ev()
            got = list(t.aggregate(over="g", **{f"{f}_over": "x"}).cols()[-1])[0]
            want = ref_agg(f, vals)
            ok = R.agg_close(got, want, tol) if isinstance(want, float) else same(got, want)
            if not ok:
                return ctx.fail(f"aggregate/{f}/none-not-skipped-or-wrong", f"{f} over {vals}: {got!r} want {want!r}")
    if None in vals:
        ctx.nontrivial()
    ctx.label("all_none", int(bool(vals) and not clean))


# ---------------------------------------------------------------- isna / dropna / fillna
FILL_KINDS = ["bool", "int", "float", "complex", "str", "bytes", "date", "datetime", "decimal", "opaque_a"]


@st.composite
def na_case(draw, tier="quick"):
    mixed = draw(st.integers(0, 5)) == 0
    if mixed:
        vals = draw(V.mixed_column(max_size=6))
        k = "object"
    else:
        k, vals = draw(V.column(kinds=FILL_KINDS, max_size=6))
    fills = draw(st.lists(st.one_of(V.SCALARS[k] if k != "object" else V.any_scalar, V.any_scalar, st.none()), min_size=2, max_size=4))
    if k == "float" and vals and draw(st.booleans()):
        # NaN and infinities are values like any other: isna/dropna/fillna treat only None as missing
        pos = draw(st.integers(0, len(vals) - 1))
        vals = list(vals)
        vals[pos] = draw(st.sampled_from([math.nan, math.inf, -math.inf]))
    return {"k": k, "vals": vals, "fills": fills}


def _compatible(x, kind):
    """fill value that a column of this kind must accept (same / narrower / wider on a ladder / object)"""
    if kind is object:
        return True
    t = type(x)
    if t is kind:
        return True
    if kind is bool:
        return False                      # bool + wider numeric: promotion or rejection both allowed
    if kind in NUM and t in NUM:
        return True
    if kind in TMP and t in TMP:
        return True
    return False


def _widened(o, g):
    """g is o after a documented widening (bool->int->float->complex, date->datetime at midnight)"""
    from datetime import datetime
    if type(o) in NUM and type(g) in NUM and NUM.index(type(g)) > NUM.index(type(o)):
        try:
            return same(type(g)(o), g)          # (nan-aware)
        except Exception:  # noqa: BLE001
            return False
    if type(o) is date and type(g) is datetime:
        return g == datetime.combine(o, datetime.min.time())
    return False


def run_na(case, ctx):
    vals = case["vals"]
    if vals and all(isinstance(x, S.Vector) for x in vals):
        return
    v = S.Vector(list(vals))
    snap = [freeze(x) for x in v]
    clean = [x for x in vals if x is not None]
    ctx.ev()
    try:
        isna = list(v.isna())
    except Exception as e:  # noqa: BLE001
        return ctx.fail(f"isna/raised/{type(e).__name__}", f"{vals}: {e}")
    if isna != [x is None for x in vals]:
        return ctx.fail("isna/wrong", f"{vals}: {isna}")
    ctx.ev()
    try:
        d = v.dropna()
    except Exception as e:  # noqa: BLE001
        return ctx.fail(f"dropna/raised/{type(e).__name__}/{'empty' if not vals else 'nonempty'}", f"{vals}: {e}")
    if [freeze(x) for x in d] != [freeze(x) for x in clean]:
        return ctx.fail("dropna/not-exactly-the-isna-positions", f"{vals} -> {list(d)}")
    if d.schema() is not None and d.schema().nullable:
        return ctx.fail("dropna/reports-nullable", f"{vals} -> {d.schema()}")
    kind = v.schema().kind if v.schema() is not None else object
    # vectors whose dtype says nullable although no None is left: selections that leave the None out,
    # and vectors whose None was overwritten
    derived = []
    if None in vals and clean:
        keep = [x is not None for x in vals]
        derived.append(("masked", v[S.Vector(keep)], clean))
        first = next(i for i, x in enumerate(vals) if x is not None)
        derived.append(("sliced", v[first:first + 1], [vals[first]]))
        w = v.copy()
        try:
            for i, x in enumerate(vals):
                if x is None:
                    w[i] = clean[0]
            derived.append(("overwritten", w, [clean[0] if x is None else x for x in vals]))
        except Exception:  # noqa: BLE001
            pass
    if len(vals) >= 2 and not (None in vals) and kind in (int, float, date):
        wider = {int: 2.5, float: 1j, date: datetime_(2020, 1, 1, 5, 0)}[kind]
        for order in ((None, wider), (wider, None)):
            w = S.Vector(list(vals))
            try:
                w[0:2] = list(order)
            except Exception:  # noqa: BLE001
                continue
            wl = list(w)
            ctx.ev()
            try:
                if list(w.isna()) != [x is None for x in wl]:
                    return ctx.fail("isna/wrong/after-batch-assignment", f"{wl}")
                dd = w.dropna()
                if [freeze(x) for x in dd] != [freeze(x) for x in wl if x is not None]:
                    return ctx.fail("dropna/not-exactly-the-isna-positions/after-batch-assignment", f"{wl} -> {list(dd)}")
                ff = w.fillna(wider)
            except Exception as e:  # noqa: BLE001
                return ctx.fail(f"na/after-batch-assignment/raised/{type(e).__name__}", f"{wl}: {e}")
            if any(x is None for x in ff) or (ff.schema() is not None and ff.schema().nullable):
                return ctx.fail("fillna/none-left/after-batch-assignment", f"{vals}; v[0:2] = {list(order)} -> {wl}; fillna({wider!r}) -> {list(ff)} {ff.schema()}")
    for how, dv, dvals in derived:
        for x in [y for y in case["fills"] if y is not None and _compatible(y, kind)][:1] + [dvals[0]]:
            ctx.ev()
            try:
                f = dv.fillna(x)
                dd = dv.dropna()
            except Exception as e:  # noqa: BLE001
                return ctx.fail(f"fillna/derived-{how}/raised/{type(e).__name__}", f"{dvals} (from {vals}).fillna({x!r}): {e}")
            if [freeze(y) for y in f] != [freeze(y) for y in dvals] and not all(_widened(o, g) or same(o, g) for o, g in zip(dvals, f)):
                return ctx.fail(f"fillna/derived-{how}/values", f"{dvals}.fillna({x!r}) -> {list(f)}")
            if f.schema() is not None and f.schema().nullable:
                return ctx.fail(f"fillna/reports-nullable/derived-{how}", f"{dvals} (selection of {vals}, dtype {dv.schema()}).fillna({x!r}) reports {f.schema()}")
            if dd.schema() is not None and dd.schema().nullable:
                return ctx.fail(f"dropna/reports-nullable/derived-{how}", f"{dvals} -> {dd.schema()}")
    for x in case["fills"]:
        ctx.ev()
        try:
            f = v.fillna(x)
        except Exception as e:  # noqa: BLE001
            if x is not None and (_compatible(x, kind) or not vals):
                cls = "object-column" if kind is object else "typed-column"
                return ctx.fail(f"fillna/compatible-value-rejected/{cls}", f"{vals}.fillna({x!r}) [{v.schema()}]: {type(e).__name__}: {e}")
            ctx.label("fill_rejected")
            continue
        got = list(f)
        if len(got) != len(vals):
            return ctx.fail("fillna/length", f"{vals}.fillna({x!r}) -> {got}")
        for i, (o, g) in enumerate(zip(vals, got)):
            if o is None:
                if not (same(g, x) or (x is not None and _widened(x, g))):
                    return ctx.fail("fillna/none-position-not-filled", f"{vals}.fillna({x!r}) -> {got}")
            else:
                # untouched, up to a documented widening of the whole column (date -> datetime at midnight)
                if not (same(g, o) or _widened(o, g)):
                    return ctx.fail("fillna/touched-non-none-position", f"{vals}.fillna({x!r}) -> {got}")
        if x is not None and f.schema() is not None and f.schema().nullable:
            return ctx.fail("fillna/reports-nullable", f"{vals}.fillna({x!r}) -> {f.schema()}")
        if x is not None and any(g is None for g in got):
            return ctx.fail("fillna/none-left", f"{vals}.fillna({x!r}) -> {got}")
    if [freeze(y) for y in v] != snap:
        return ctx.fail("na/operand-modified", "vector changed")
    if None in vals:
        ctx.nontrivial()
    ctx.label("all_none", int(bool(vals) and not clean))
    ctx.label("object_column", int(kind is object))


def parts(tier):
    return [
        Part("arith", run_arith, strategy=lambda t: c05.operand_case(t), examples=(2000, 60000), shards=(4, 16)),
        Part("compare", run_cmp, strategy=lambda t: cmp_case(t), examples=(1500, 40000), shards=(4, 16)),
        Part("reduce", run_red, strategy=lambda t: red_case(t), examples=(2000, 60000), shards=(4, 16), floors={"all_none": 0.05}),
        Part("na", run_na, strategy=lambda t: na_case(t), examples=(2000, 60000), shards=(4, 16), floors={"all_none": 0.05, "object_column": 0.1}),
    ]
