"""C07 — masks and indexing follow Python sequence semantics and compose."""
import math
import operator

from hypothesis import strategies as st

from harness.loader import load
from harness.runner import Part
from harness import build as B
from harness import values as V
from harness import relational as R
from harness.refmodel import freeze, same

S = load()

PROPERTY = "C07"
LEVEL_TEXT = 'Bounded-exhaustive for slices / indices / masks on vectors of length 0..6 (thorough 0..9) and on 2-column tables; random vectors, comparison operands (incl. hash-twin near-equal pairs and same-object comparison) and tables with repeated / missing names.'
LEVEL_NOTE = 'date-vs-ISO-string and date-vs-datetime comparisons are excluded (serif documents its own semantics).'
DESIGN_REF = "DESIGN.md §5 C07"
ENGINE = "elementwise"
TECHNIQUE = "bounded-exhaustive enumeration of slices / indices / masks on short vectors and tables + Hypothesis-generated vectors, tables and comparison operands; oracle = Python list semantics and Python's own comparison"
RULE = ("exhaustive: vectors range(n), n = 0..6 (thorough 0..9): every slice with start, stop in {None} U [-n-2, n+2] and step in "
        "{None} U [-n-1, n+1] (step 0 must raise), every int index in [-n-2, n+1], all 2^n masks as Vector and as list, wrong-length "
        "masks; the same slices on 2-column tables for n <= 4. random: vectors of every kind with names, tables with repeated / "
        "unsanitary / missing names in tuple selections, six comparisons and & | ^ ~ against Vector / list / scalar operands. "
        "Non-trivial = slice with empty or reversed result or out-of-range bound, mask with both values, comparison with a None or "
        "mixed kinds, composition with >=2 rows kept and >=2 columns; distinct = case (+ sub-case key) encoding.")
ASSUMPTIONS = [
    "comparisons for which Python itself raises (int < str) are outside the domain; date-vector vs ISO-string and vs datetime comparisons are excluded (serif documents its own semantics there)",
    "an untyped empty list / empty untyped Vector is not a boolean mask; the empty mask is written Vector([], dtype=bool)",
    "~ is asserted on bool vectors without None only",
]

NAME = "the name"


def _kind(v):
    s = v.schema()
    return None if s is None else s.kind


def _check_result(ctx, where, res, want, src, detail):
    """res: Vector result of v[key]; want: list"""
    if not isinstance(res, S.Vector) or isinstance(res, S.Table):
        return ctx.fail(f"{where}/result-not-a-vector", f"{type(res).__name__} {detail}")
    got = list(res)
    if [freeze(x) for x in got] != [freeze(x) for x in want]:
        if not want and len(got) == len(src) and len(src) > 0:
            return ctx.fail(f"{where}/python-result-empty/serif-returned-whole-vector", f"{detail}: got {got}, Python gives []")
        return ctx.fail(f"{where}/mismatch", f"{detail}: got {got}, Python gives {want}")
    if res.name != src.name:
        return ctx.fail(f"{where}/name-lost", f"{detail}: name {res.name!r} != {src.name!r}")
    if _kind(src) is not None and _kind(res) is not _kind(src):
        return ctx.fail(f"{where}/kind-changed", f"{detail}: {src.schema()} -> {res.schema()}")
    return False


# ---------------------------------------------------------------- exhaustive core
def _nmax(tier):
    return 6 if tier == "quick" else 9


def enum_cases(tier):
    for n in range(_nmax(tier) + 1):
        for start in [None] + list(range(-n - 2, n + 3)):
            yield {"n": n, "start": start}
        yield {"n": n, "masks": True}


def run_enum(case, ctx):
    n = case["n"]
    base = list(range(n))
    v = S.Vector(base, name=NAME) if n else S.Vector([], dtype=int, name=NAME)
    if case.get("masks"):
        # int indices
        for i in range(-n - 2, n + 2):
            ctx.ev()
            try:
                want = base[i]
            except IndexError:
                try:
                    got = v[i]
                except Exception:  # noqa: BLE001
                    continue
                return ctx.fail("vector-index/out-of-range-accepted", f"n={n} v[{i}] = {got!r}")
            got = v[i]
            if not same(got, want):
                return ctx.fail("vector-index/mismatch", f"n={n} v[{i}] = {got!r}, Python {want!r}")
        # masks
        for bits in range(2 ** n):
            m = [bool(bits >> i & 1) for i in range(n)]
            want = [x for x, f in zip(base, m) if f]
            forms = [("vector", S.Vector(m) if n else S.Vector([], dtype=bool))]
            if n:
                forms.append(("list", m))
            for form, key in forms:
                ctx.ev()
                if _check_result(ctx, f"vector-mask-{form}", v[key], want, v, f"n={n} mask={m}"):
                    return
            if 0 < bits < 2 ** n - 1:
                ctx.nontrivial(f"m{bits}")
            # wrong length (one longer, one shorter)
            for wrong in ([*m, True], m[:-1] if n > 1 else None):
                if wrong is None or not wrong:
                    continue
                for form, key in (("vector", S.Vector(wrong)), ("list", wrong)):
                    ctx.ev()
                    try:
                        r = v[key]
                    except Exception:  # noqa: BLE001
                        continue
                    return ctx.fail(f"vector-mask-{form}/wrong-length-accepted", f"n={n} mask of length {len(wrong)} -> {list(r)}")
        return
    start = case["start"]
    t = None
    if n <= 4:
        t = R.build_table([("a", base), ("b c", [str(x) for x in base])])
    for stop in [None] + list(range(-n - 2, n + 3)):
        for step in [None] + list(range(-n - 1, n + 2)):
            ctx.ev()
            key = slice(start, stop, step)
            if step == 0:
                try:
                    r = v[key]
                except Exception:  # noqa: BLE001
                    continue
                return ctx.fail("vector-slice/step-zero-accepted", f"n={n} {key} -> {list(r)}")
            want = base[key]
            if _check_result(ctx, "vector-slice", v[key], want, v, f"n={n} {key}"):
                return
            if not want or (step is not None and step < 0) or (stop is not None and abs(stop) > n):
                ctx.nontrivial(f"{stop},{step}")
            if t is not None:
                ctx.ev()
                r = t[key]
                if not isinstance(r, S.Table):
                    return ctx.fail("table-slice/result-not-a-table", f"n={n} {key}: {type(r).__name__}")
                got = [list(c) for c in r.cols()]
                exp = [base[key], [str(x) for x in base][key]]
                if got != exp:
                    if not exp[0] and got[0] == base and n:
                        return ctx.fail("table-slice/python-result-empty/serif-returned-whole-table", f"n={n} {key}")
                    return ctx.fail("table-slice/mismatch", f"n={n} {key}: got {got} want {exp}")
                if list(r.column_names()) != ["a", "b c"]:
                    return ctx.fail("table-slice/names", f"{r.column_names()}")


# ---------------------------------------------------------------- random vectors
@st.composite
def index_case(draw, tier="quick"):
    big = tier == "thorough" and draw(st.integers(0, 19)) == 0
    kind, vals = draw(V.column(kinds=V.ALL_KINDS, max_size=40 if big else 7))
    n = len(vals)
    name = draw(V.any_names)
    sl = st.one_of(st.none(), st.integers(-n - 2, n + 2))
    step = st.one_of(st.none(), st.integers(-n - 1, n + 1).filter(lambda x: x != 0))
    return {"vals": vals, "name": name, "slices": draw(st.lists(st.tuples(sl, sl, step), min_size=1, max_size=4)),
            "mask": draw(st.lists(st.booleans(), min_size=n, max_size=n)),
            "idx": draw(st.integers(-n - 2, n + 1))}


def run_index(case, ctx):
    vals, n = case["vals"], len(case["vals"])
    if vals and all(isinstance(x, S.Vector) for x in vals):
        return
    v = S.Vector(list(vals), name=case["name"])
    for a, b, c in case["slices"]:
        ctx.ev()
        key = slice(a, b, c)
        if _check_result(ctx, "vector-slice", v[key], vals[key], v, f"{vals}[{key}]"):
            return
        if not vals[key]:
            ctx.nontrivial()
    m = case["mask"]
    want = [x for x, f in zip(vals, m) if f]
    for form, key in (("vector", S.Vector(m) if n else S.Vector([], dtype=bool)), ("list", m)):
        if form == "list" and not n:
            continue
        ctx.ev()
        if _check_result(ctx, f"vector-mask-{form}", v[key], want, v, f"{vals} mask {m}"):
            return
    if n:
        # the same mask vector used again after being edited in place
        mv = S.Vector(list(m))
        first = v[mv]
        j = case["idx"] % n
        m2 = list(m)
        m2[j] = not m2[j]
        try:
            mv[j] = m2[j]
        except Exception:  # noqa: BLE001
            mv = None
        if mv is not None:
            ctx.ev()
            want2 = [x for x, f in zip(vals, m2) if f]
            if _check_result(ctx, "vector-mask-vector/reused-after-edit", v[mv], want2, v, f"{vals} mask {m} edited at {j}"):
                return
            t2 = R.build_table([("a", vals), ("b", list(range(n)))])
            t2[S.Vector(list(m))]
            got_b = list(t2[mv].cols()[1])
            if got_b != [i2 for i2, f in zip(range(n), m2) if f]:
                return ctx.fail("table-mask/reused-after-edit", f"mask {m} edited at {j}: rows {got_b}")
    if len(set(m)) == 2:
        ctx.nontrivial()
    i = case["idx"]
    ctx.ev()
    try:
        want_i = vals[i]
    except IndexError:
        try:
            got = v[i]
        except Exception:  # noqa: BLE001
            return
        return ctx.fail("vector-index/out-of-range-accepted", f"{vals}[{i}] = {got!r}")
    if freeze(v[i]) != freeze(want_i):
        return ctx.fail("vector-index/mismatch", f"{vals}[{i}] = {v[i]!r}")


# ---------------------------------------------------------------- comparisons and logical operators
CMP = [("eq", operator.eq), ("ne", operator.ne), ("lt", operator.lt), ("le", operator.le), ("gt", operator.gt), ("ge", operator.ge)]
LOGIC = [("and", operator.and_), ("or", operator.or_), ("xor", operator.xor)]
CMP_KINDS = ["bool", "int", "float", "str", "bytes", "date", "datetime"]


@st.composite
def compare_case(draw, tier="quick"):
    n = draw(st.integers(0, 6))
    ka = draw(st.sampled_from(CMP_KINDS))
    num = ("bool", "int", "float")
    kb = draw(st.sampled_from(num)) if (ka in num and draw(st.booleans())) else ka
    if draw(st.integers(0, 9)) == 0:
        kb = draw(st.sampled_from(CMP_KINDS))      # arbitrary pair: == / != are defined for every pair
    a = draw(V.column(kind=ka, min_size=n, max_size=n, dup=draw(st.booleans())))[1]
    b = draw(V.column(kind=kb, min_size=n, max_size=n, dup=draw(st.booleans())))[1]
    if a and b and draw(st.booleans()):
        b = [x if (f and x is not None) else y for x, y, f in zip(a, b, draw(st.lists(st.booleans(), min_size=n, max_size=n)))] if ka == kb else b
    if ka == kb and ka in ("int", "float") and a and draw(st.integers(0, 3)) == 0:
        # near-equal operands: identical except for pairs that hash() cannot tell apart
        twins = {-1: -2, -2: -1, 0: 2 ** 61 - 1, 2 ** 61 - 1: 0, 1: 2 ** 61, 0.0: float(2 ** 61 - 1)}
        flips = draw(st.lists(st.booleans(), min_size=n, max_size=n))
        if ka == "int":
            a = [draw(st.sampled_from([-1, -2, 0, 1, 3, 7])) if x is not None else None for x in a]
        b = [twins.get(x, x) if (f and x is not None and x in twins) else x for x, f in zip(a, flips)]
    if ka == kb == "float" and a and draw(st.integers(0, 2)) == 0:
        # nan: equal element objects on both sides (v == v.copy()) must still compare by Python's rules (nan != nan)
        nan = math.nan
        a = [nan if (x is not None and f) else x for x, f in zip(a, draw(st.lists(st.booleans(), min_size=n, max_size=n)))]
        b = list(a)
    scalar = draw(V.SCALARS[kb])
    return {"ka": ka, "kb": kb, "a": a, "b": b, "scalar": scalar, "wrong_len": draw(st.integers(1, 2))}


def _excluded(ka, kb):
    # serif documents its own semantics for date vs ISO string and date vs datetime
    # (either operand order: Python dispatches vector-vs-date-vector comparisons to the date vector)
    return {ka, kb} in ({"date", "str"}, {"date", "datetime"})


def run_compare(case, ctx):
    a, b, ka, kb = case["a"], case["b"], case["ka"], case["kb"]
    if _excluded(ka, kb):
        ctx.label("excluded_date_override")
        return
    va = B.vector(a)
    if ka == "bool" and None not in a:
        # a boolean vector used as a mask on itself (also when it is empty), and on the table it is a column of
        ctx.ev()
        vself = S.Vector(list(a)) if a else S.Vector([], dtype=bool)
        try:
            sel = list(vself[vself])
            tt = S.Table({"flag": list(a), "pos": list(range(len(a)))}) if a else S.Table({"flag": [True], "pos": [0]})[[False]]
            tsel = [list(c) for c in tt[tt.flag].cols()]
        except Exception as e:  # noqa: BLE001
            return ctx.fail(f"mask-self/raised/{type(e).__name__}/{'empty' if not a else 'nonempty'}", f"v[v] for v = {a}: {e}")
        if sel != [x for x in a if x] or tsel != [[x for x in a if x], [i for i, x in enumerate(a) if x]]:
            return ctx.fail("mask-self/mismatch", f"v[v] for v = {a}: {sel}; table {tsel}")
    # & | ^ are Python's own operators too: on ints they work on bits (1 & 2 == 0 although both are truthy)
    ops = CMP + (LOGIC if ka in ("bool", "int") and kb in ("bool", "int") else [])
    for name, op in ops:
        for form in ("vector", "list", "tuple", "scalar", "self", "scalar_none"):
            if form == "scalar":
                ys = [case["scalar"]] * len(a)
                rhs = case["scalar"]
            elif form == "scalar_none":
                # the scalar None as right operand: Python compares every element with it (x == None is False, x != None is
                # True; ordering is a TypeError and stays outside); a None *element* still gives False at its position
                if name not in ("eq", "ne"):
                    continue
                rhs = None
                ctx.ev()
                want = [False if x is None else bool(op(x, None)) for x in a]
                try:
                    got = list(op(va, None))
                except Exception as e:  # noqa: BLE001
                    return ctx.fail(f"compare-scalar-none/raised/{type(e).__name__}", f"{a} {name} None: {e}")
                if got != want:
                    return ctx.fail(f"compare-scalar-none/mismatch/{name}", f"{a} {name} None: got {got} want {want}")
                continue
            elif form == "self":
                ys, rhs = a, va
            else:
                ys = b
                rhs = S.Vector(list(b)) if form == "vector" else (list(b) if form == "list" else tuple(b))
            try:
                want = [False if (x is None or y is None) else bool(op(x, y)) for x, y in zip(a, ys)]
            except TypeError:
                ctx.python_undefined()
                continue
            ctx.ev()
            try:
                res = op(va, rhs)
            except Exception as e:  # noqa: BLE001
                nn = "with-none" if (None in a or None in ys) else "no-none"
                return ctx.fail(f"compare-{form}/raised/{type(e).__name__}/{ka}-{kb}/{nn}", f"{a} {name} {ys if form != 'scalar' else rhs!r}: {e}")
            got = list(res)
            if got != want or any(type(x) is not bool for x in got):
                return ctx.fail(f"compare-{form}/mismatch/{name}", f"{a} {name} {ys}: got {got} want {want}")
            sc = res.schema()
            if sc is None or sc.kind is not bool or sc.nullable:
                return ctx.fail(f"compare-{form}/result-dtype/{'empty' if not got else 'nonempty'}", f"{a} {name} {ys}: schema {sc}")
            if form in ("scalar", "vector") and name in ("eq", "lt"):
                # the comparison result is usable as a mask on its own operand
                try:
                    sel = list(va[res])
                except Exception as e:  # noqa: BLE001
                    return ctx.fail(f"compare-{form}/result-not-usable-as-mask/{'empty' if not got else 'nonempty'}", f"{a}[{a} {name} ...]: {type(e).__name__}: {e}")
                if [freeze(x) for x in sel] != [freeze(x) for x, f in zip(a, want) if f]:
                    return ctx.fail(f"compare-{form}/mask-composition-wrong", f"{a}[{a} {name} {ys}] = {sel}")
        if name in ("and", "or", "xor"):
            # reflected forms: a plain list / scalar on the left of & | ^
            for form, lhs, xs in (("rlist", list(a), a), ("rscalar", case["scalar"], [case["scalar"]] * len(a))):
                if None in xs or (form == "rscalar" and type(case["scalar"]) not in (bool, int)):
                    continue
                try:
                    want = [False if y is None else bool(op(x, y)) for x, y in zip(xs, b)]
                except TypeError:
                    ctx.python_undefined()
                    continue
                ctx.ev()
                try:
                    got = list(op(lhs, S.Vector(list(b))))
                except Exception as e:  # noqa: BLE001
                    return ctx.fail(f"compare-{form}/raised/{type(e).__name__}/{name}", f"{xs} {name} {b}: {e}")
                if got != want:
                    return ctx.fail(f"compare-{form}/mismatch/{name}", f"{xs} {name} {b}: got {got} want {want}")
        # length mismatch must raise
        for form in ("vector", "list"):
            wl = list(b) + [case["scalar"]] * case["wrong_len"]
            ctx.ev()
            try:
                r = op(va, S.Vector(wl) if form == "vector" else wl)
            except Exception:  # noqa: BLE001
                continue
            if isinstance(r, S.Vector) and not isinstance(r, S.Table):
                return ctx.fail(f"compare-{form}/length-mismatch-accepted", f"{a} {name} {wl} -> {list(r)}")
    if ka == "bool" and None not in a and a:
        ctx.ev()
        got = list(~va)
        if got != [not x for x in a]:
            return ctx.fail("invert/mismatch", f"~{a} = {got}")
    if None in a or None in b or ka != kb:
        ctx.nontrivial()


# ---------------------------------------------------------------- tables: uniform row selection, column selection, commutation
TNAMES = ["a", "b", "A", "a b", "sum", "x", None, "a_b", "é", ""]


@st.composite
def table_case(draw, tier="quick"):
    n = draw(st.integers(0, 6))
    m = draw(st.integers(1, 4))
    cols = []
    for _ in range(m):
        name = draw(st.sampled_from(TNAMES))
        cols.append((name, draw(V.column(kinds=["int", "str", "float", "bool", "date"], min_size=n, max_size=n))[1]))
    sl = st.one_of(st.none(), st.integers(-n - 2, n + 2))
    step = st.one_of(st.none(), st.integers(-n - 1, n + 1).filter(lambda x: x != 0))
    rows = draw(st.one_of(st.tuples(st.just("slice"), sl, sl, step),
                          st.tuples(st.just("mask"), st.lists(st.booleans(), min_size=n, max_size=n), st.sampled_from(["vector", "list"]))))
    stored = [nm for nm, _ in cols if isinstance(nm, str)]
    sel = draw(st.lists(st.sampled_from(stored), min_size=1, max_size=3)) if stored else []
    missing = draw(st.sampled_from(["missing", "zz", "a__9", "col9_", "B", "b_", "col0_", "col1_", "COL0_", "col2_", "Col1_", "col01_", "col00_", "col000_", "col1__", "col_1_", "col+1_"]))
    pos = draw(st.integers(0, len(sel)))
    return {"cols": cols, "rows": rows, "sel": sel, "missing": missing, "missing_pos": pos}


def _rowkey(rows, n):
    if rows[0] == "slice":
        return slice(rows[1], rows[2], rows[3]), lambda xs: xs[slice(rows[1], rows[2], rows[3])]
    m = rows[1]
    key = (S.Vector(m) if n else S.Vector([], dtype=bool)) if rows[2] == "vector" else m
    return key, lambda xs: [x for x, f in zip(xs, m) if f]


def run_table(case, ctx):
    cols = case["cols"]
    n = len(cols[0][1])
    t = R.build_table(cols)
    key, model = _rowkey(case["rows"], n)
    usable_mask = not (case["rows"][0] == "mask" and case["rows"][2] == "list" and n == 0)
    names = [c[0] for c in cols]
    if usable_mask:
        ctx.ev()
        r = t[key]
        if not isinstance(r, S.Table):
            return ctx.fail(f"table-{case['rows'][0]}/result-not-a-table", f"{type(r).__name__}")
        got = [[freeze(x) for x in c] for c in r.cols()]
        want = [[freeze(x) for x in model(vals)] for _, vals in cols]
        if got != want:
            if all(not w for w in want) and n and all(len(g) == n for g in got):
                return ctx.fail(f"table-{case['rows'][0]}/python-result-empty/serif-returned-whole-table", f"{case['rows']}")
            return ctx.fail(f"table-{case['rows'][0]}/not-uniform-or-wrong", f"{case['rows']}: got {got} want {want}")
        if list(r.column_names()) != names:
            return ctx.fail(f"table-{case['rows'][0]}/names", f"{r.column_names()} vs {names}")
    # a boolean mask of another length than the table is an error (shorter as well as longer; list and vector form)
    for wrong in ([True] * (n + 1), [True] * (n + 2), [True] * (n - 1) if n >= 2 else None, [False] * (n - 2) if n >= 3 else None):
        if wrong is None:
            continue
        for mk in (list(wrong), S.Vector(list(wrong))):
            ctx.ev()
            try:
                rr = t[mk]
            except Exception:  # noqa: BLE001
                continue
            return ctx.fail(f"table-mask/wrong-length-accepted/{'shorter' if len(wrong) < n else 'longer'}",
                            f"a mask of {len(wrong)} on a table of {n} rows returned {type(rr).__name__} of {len(rr)} rows")
    # integer row indices: t[i] is the i-th row for -n <= i < n (Python sequence semantics), anything else is an error
    # (raised by t[i] or as soon as the row is read)
    for i in range(-2 * n - 2, n + 3):
        ctx.ev()
        want_row = [freeze(vals[i]) for _, vals in cols] if -n <= i < n else None
        try:
            got_row = [freeze(x) for x in t[i]]
        except Exception as e:  # noqa: BLE001
            if want_row is not None:
                return ctx.fail(f"table-row-index/raised/{type(e).__name__}", f"t[{i}] on {n} rows: {e}")
            continue
        if want_row is None:
            where = "below" if i < 0 else "above"
            return ctx.fail(f"table-row-index/out-of-range-accepted/{where}", f"t[{i}] on {n} rows returned {got_row}")
        if got_row != want_row:
            return ctx.fail("table-row-index/wrong-row", f"t[{i}] on {n} rows: {got_row}, columns give {want_row}")
    # missing column must be an error (single name and inside a tuple)
    miss = case["missing"]
    # does the name denote a column?  Decided without asking the lookup under test: it is a stored name, or (as the table
    # advertises them through dir()) an accessor of some column, compared case-insensitively / after sanitisation
    from checks import c17 as _c17
    adv = set(dir(t)) - _c17.base_dir()
    exists = miss in names or miss.lower() in adv or (_c17.ref_sanitise(miss) in adv)
    if not exists:
        ctx.ev()
        try:
            r1 = t[miss]
        except Exception:  # noqa: BLE001
            r1 = None
        else:
            shape = "system-name" if (miss.lower().startswith("col") and miss.endswith("_")) else "other"
            return ctx.fail(f"table-select/missing-column-accepted/single/{shape}",
                            f"t[{miss!r}] on columns {names} (advertised {sorted(adv)}) returned {type(r1).__name__}")
    if not exists and case["sel"]:
        ctx.ev()
        sel = list(case["sel"])
        sel.insert(case["missing_pos"], miss)
        try:
            r = t[tuple(sel)]
        except Exception:  # noqa: BLE001
            r = None
        if r is not None:
            return ctx.fail("table-select/missing-column-accepted",
                            f"t[{tuple(sel)}] on columns {names} returned columns {r.column_names() if isinstance(r, S.Table) else r}")
        ctx.nontrivial("missing")
    # selection by stored names; commutation with row selection
    if case["sel"] and usable_mask:
        ctx.ev()
        sel = tuple(case["sel"])
        tc = t[sel]
        first = {}
        for nm, vals in cols:
            first.setdefault(nm, vals)
        want_sel = [[freeze(x) for x in first[nm]] for nm in sel]
        if [[freeze(x) for x in c] for c in tc.cols()] != want_sel or list(tc.column_names()) != list(sel):
            return ctx.fail("table-select/wrong-columns", f"t[{sel}] on {cols}: {tc.column_names()} {[list(c) for c in tc.cols()]}")
        a = t[key][sel]
        key2, _ = _rowkey(case["rows"], n)
        b = t[sel][key2]
        ca, cb = [[freeze(x) for x in c] for c in a.cols()], [[freeze(x) for x in c] for c in b.cols()]
        if ca != cb or list(a.column_names()) != list(b.column_names()):
            return ctx.fail("table-select/rows-cols-do-not-commute", f"t[rows][cols]={ca} {a.column_names()} t[cols][rows]={cb} {b.column_names()}")
        want_c = [[freeze(x) for x in model(first[nm])] for nm in sel]
        if ca != want_c:
            return ctx.fail("table-select/composition-wrong", f"got {ca} want {want_c}")
        if len(sel) >= 2 and len(want_c[0]) >= 2:
            ctx.nontrivial("compose")


def parts(tier):
    N = _nmax(tier)
    return [
        Part("enum", run_enum, enumerate=enum_cases, shards=(8, 16), exhaustive=True,
             space=f"vectors range(n), n=0..{N}: all slices (start, stop in None|[-n-2,n+2], step in None|[-n-1,n+1]), all int "
                   f"indices in [-n-2,n+1], all 2^n masks (Vector and list) + wrong-length masks; same slices on 2-column tables for n<=4"),
        Part("index", run_index, strategy=lambda t: index_case(t), examples=(1500, 60000), shards=(3, 16)),
        Part("compare", run_compare, strategy=lambda t: compare_case(t), examples=(1200, 40000), shards=(3, 16)),
        Part("table", run_table, strategy=lambda t: table_case(t), examples=(1500, 60000), shards=(3, 16)),
    ]
