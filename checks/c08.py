"""C08 — in-place assignment matches list assignment, promotes or rejects, and is atomic."""
from datetime import date, datetime

from hypothesis import strategies as st

from harness.loader import load
from harness.runner import Part
from harness import values as V
from harness import relational as R
from harness.refmodel import freeze, same, join_kind, NUM, TMP, ref_dtype

S = load()

PROPERTY = "C08"
LEVEL_TEXT = 'Fault enumeration: key form x value form x kind class with the failing element / raising iterator position enumerated; atomicity through contents, type tags, schema, name and fingerprint; table cell/row/column/region assignment and rename_columns.'
LEVEL_NOTE = 'Reference model = Python list assignment with scalar broadcast and the same-length rule; a bool column may reject a wider number.'
DESIGN_REF = "DESIGN.md §5 C08"
ENGINE = "elementwise"
LEVEL = "fault_enumeration"
TECHNIQUE = "property-based testing with enumerated failure points: generated (vector, key form, value form, kind pair) cases vs a Python-list reference model; iterables that raise at element k / lie about their length; atomicity checked through contents, type tags, schema, name and fingerprint"
RULE = ("vector of any kind and length 0..7 x key form {int incl. negative / out of range, slice, mask as Vector or list (right and "
        "wrong length), index list / tuple / Vector with duplicates, negatives and an out-of-range index at position k} x value form "
        "{scalar, list, tuple, Vector, range, generator, str as scalar, iterable raising at element k, iterable whose len() raises, "
        "iterable lying about its length} x kind class {same, narrower, wider, bool->wider, incompatible, None} with the odd element "
        "first / middle / last; tables: cell, row, column, region assignment and rename_columns with a missing name at position k. "
        "Non-trivial = promotion, or a failure injected at position >= 1, or duplicate indices; distinct = case encoding.")
ASSUMPTIONS = [
    "a value whose kind is not on the column's ladder is incompatible and must be rejected with SerifTypeError; a value above the column's kind on a ladder promotes the column (a bool column may instead reject it)",
    "serif never changes a vector's length: slice assignment needs exactly as many values as the slice addresses",
    "a table-level assignment may leave a row partially written when a later column fails (the statement promises atomicity per vector); such cases are counted as table_partial_rows, not reported",
    "empty list keys and untyped empty Vector keys are ambiguous between 'mask' and 'index list' and are not generated",
]
NAME = "vname"


class Boom(Exception):
    pass


class RaisingIter:
    """len() is honest; iteration raises Boom after k elements"""
    def __init__(self, xs, k):
        self.xs, self.k = list(xs), k

    def __len__(self):
        return len(self.xs)

    def __iter__(self):
        for i, x in enumerate(self.xs):
            if i == self.k:
                raise Boom(f"element {i}")
            yield x
        if self.k >= len(self.xs):
            raise Boom("at end")


class BadLen:
    def __init__(self, xs):
        self.xs = list(xs)

    def __len__(self):
        raise Boom("len")

    def __iter__(self):
        return iter(self.xs)


class Liar:
    """claims another length than it yields"""
    def __init__(self, xs, claimed):
        self.xs, self.claimed = list(xs), claimed

    def __len__(self):
        return self.claimed

    def __iter__(self):
        return iter(self.xs)


VEC_KINDS = ["bool", "int", "float", "complex", "str", "bytes", "date", "datetime", "object", "tuple"]
LADDER_UP = {"bool": ["int", "float", "complex"], "int": ["float", "complex"], "float": ["complex"], "date": ["datetime"]}
LADDER_DOWN = {"int": ["bool"], "float": ["int", "bool"], "complex": ["float", "int", "bool"], "datetime": ["date"]}


@st.composite
def assign_case(draw, tier="quick"):
    kind = draw(st.sampled_from(VEC_KINDS + ["int", "int", "float", "date"]))
    n = draw(st.integers(0, 7))
    if kind == "object":
        vals = draw(V.mixed_column(min_size=n, max_size=n))
    else:
        vals = draw(V.column(kind=kind, min_size=n, max_size=n, elements=_small(kind)))[1]
    if kind in ("int", "float") and n and draw(st.integers(0, 2)) == 0:
        # a column that still holds an element of a lower rung (Vector([1, True, 3]) is an int vector): promotion converts it too
        vals = list(vals)
        vals[draw(st.integers(0, n - 1))] = draw(st.booleans()) if kind == "int" else draw(st.integers(-3, 3))
    if kind == "int" and n and draw(st.integers(0, 7)) == 0:
        # an int no float can hold: a promoting assignment cannot convert it (OverflowError in Python) and has to fail cleanly
        vals = list(vals)
        vals[draw(st.integers(0, n - 1))] = draw(st.sampled_from([10 ** 400, -(10 ** 400)]))
    kf = draw(st.sampled_from(["int", "slice", "slice", "mask", "mask", "index", "index"]))
    if kf == "int":
        key = ("int", draw(st.integers(-n - 2, n + 1)))
        idxs = [key[1] % n] if (n and -n <= key[1] < n) else None
    elif kf == "slice":
        sl = st.one_of(st.none(), st.integers(-n - 2, n + 2))
        key = ("slice", draw(sl), draw(sl), draw(st.one_of(st.none(), st.integers(-n - 1, n + 1).filter(lambda x: x != 0))))
        idxs = list(range(*slice(key[1], key[2], key[3]).indices(n)))
    elif kf == "mask":
        wrong = draw(st.integers(0, 5)) == 0
        ln = n + draw(st.sampled_from([-1, 1, 2])) if wrong else n
        m = draw(st.lists(st.booleans(), min_size=max(ln, 1) if wrong else ln, max_size=max(ln, 1) if wrong else ln))
        form = draw(st.sampled_from(["vector", "list"]))
        if not m:
            form = "vector"
        key = ("mask", m, form)
        idxs = [i for i, f in enumerate(m) if f] if len(m) == n else None
    else:
        k = draw(st.integers(1, 5))
        raw = draw(st.lists(st.integers(-n, n - 1) if n else st.just(0), min_size=k, max_size=k))
        if draw(st.integers(0, 4)) == 0 or not n:
            raw[draw(st.integers(0, k - 1))] = draw(st.sampled_from([n, n + 1, -n - 1]))
        key = ("index", raw, draw(st.sampled_from(["list", "tuple", "vector"])))
        idxs = [i % n for i in raw] if (n and all(-n <= i < n for i in raw)) else None
    m = len(idxs) if idxs is not None else draw(st.integers(0, 3))
    # value
    cls = draw(st.sampled_from(["same", "same", "narrower", "wider", "wider", "incompatible", "none", "mixed_wider",
                                "none_then_wider", "wider_then_none", "twin", "none_then_wider", "wider_then_none"]))
    vkind = kind

    def elems(k_):
        return _small(k_)

    vf = draw(st.sampled_from(["scalar", "scalar", "list", "list", "tuple", "vector", "range", "gen", "str",
                               "boom_iter", "boom_len", "liar"]))
    if kf == "int":
        vf = draw(st.sampled_from(["scalar", "scalar", "str"]))
    elif kind == "tuple" and vf == "scalar":
        vf = "tuple"          # a cell of this column is itself a sequence: for a non-integer key a tuple value means "these cells"
    ln = m
    if vf in ("list", "tuple", "vector", "gen") and draw(st.integers(0, 5)) == 0:
        ln = max(0, m + draw(st.sampled_from([-1, 1])))
    base = draw(st.lists(elems(kind), min_size=ln, max_size=ln))
    odd = None
    if cls == "narrower" and kind in LADDER_DOWN:
        odd = draw(elems(draw(st.sampled_from(LADDER_DOWN[kind]))))
    elif cls == "wider" and kind in LADDER_UP:
        odd = draw(elems(draw(st.sampled_from(LADDER_UP[kind]))))
    elif cls == "incompatible":
        other = [k_ for k_ in ["int", "str", "date", "float", "bytes", "bool"] if k_ != kind and k_ not in LADDER_UP.get(kind, []) and k_ not in LADDER_DOWN.get(kind, [])]
        odd = draw(elems(draw(st.sampled_from(other))))
    elif cls == "none":
        odd = None
    odd_set = cls in ("narrower", "wider", "incompatible", "none") and not (cls in ("narrower", "wider") and odd is None)
    seq = list(base)
    pos = None
    if odd_set and seq:
        pos = draw(st.sampled_from([0, len(seq) // 2, len(seq) - 1]))
        seq[pos] = odd
    if draw(st.integers(0, 3)) == 0 and len(seq) >= 2 and cls in ("incompatible", "wider", "same"):
        # a None next to the odd element (before or after it)
        free = [i for i in range(len(seq)) if not (odd_set and i == pos)]
        seq[draw(st.sampled_from(free))] = None
    if cls in ("none_then_wider", "wider_then_none") and kind in LADDER_UP and len(seq) >= 2:
        wv = draw(elems(draw(st.sampled_from(LADDER_UP[kind]))))
        a_, b_ = sorted(draw(st.lists(st.integers(0, len(seq) - 1), min_size=2, max_size=2, unique=True)))
        seq[a_], seq[b_] = (None, wv) if cls == "none_then_wider" else (wv, None)
    if cls == "twin" and kind in ("bool", "int", "float") and len(seq) >= 2:
        # two values that are equal (and hash alike) but of different rungs: 1 and 1.0, True and 1, 2.0 and 2+0j
        a_, b_ = sorted(draw(st.lists(st.integers(0, len(seq) - 1), min_size=2, max_size=2, unique=True)))
        x = seq[a_]
        up = {"bool": [int, float], "int": [float, complex], "float": [complex]}[kind]
        tw = draw(st.sampled_from(up))(x)
        seq[a_], seq[b_] = (x, tw) if draw(st.booleans()) else (tw, x)
    if cls == "mixed_wider" and kind in ("int", "bool", "float") and len(seq) >= 2:
        ups = LADDER_UP[kind]
        seq[0] = draw(elems(ups[0]))
        seq[-1] = draw(elems(ups[-1]))
    scalar = odd if odd_set else draw(elems(kind))
    if vf == "scalar":
        value = ("scalar", scalar)
    elif vf == "str":
        value = ("scalar", draw(st.sampled_from(["ab", "", "xyz"])))
    elif vf == "range":
        value = ("range", draw(st.integers(-2, 3)), ln)
    elif vf == "boom_iter":
        value = ("boom_iter", seq, draw(st.integers(0, max(len(seq), 0))))
    elif vf == "boom_len":
        value = ("boom_len", seq)
    elif vf == "liar":
        value = ("liar", seq, max(0, len(seq) + draw(st.sampled_from([-1, 1, 2]))))
    else:
        value = (vf, seq)
    return {"kind": kind, "vals": vals, "key": key, "value": value, "read_fp_first": draw(st.booleans())}


def _small(kind):
    return {
        "bool": st.booleans(), "int": st.integers(-5, 9), "float": st.sampled_from([0.5, 1.5, -2.0, 3.0, 0.0]),
        "complex": st.sampled_from([1j, 2 + 0j, -1.5 + 2j]), "str": st.sampled_from(["a", "b", "", "xy"]),
        "bytes": st.sampled_from([b"a", b"", b"xy"]), "date": st.sampled_from([date(2020, 1, 1), date(2021, 5, 6)]),
        "datetime": st.sampled_from([datetime(2020, 1, 1, 0, 0), datetime(2021, 5, 6, 7, 8)]),
        "object": st.one_of(st.integers(-3, 3), st.sampled_from(["s", 1.5, True, date(2020, 1, 1), b"b"]), V.opaque_a, V.decimals),
        "tuple": st.sampled_from([(1, 2), (0,), (3, 4, 5), (), (9, 9)]),
    }[kind]


def make_key(key):
    if key[0] == "int":
        return key[1]
    if key[0] == "slice":
        return slice(key[1], key[2], key[3])
    if key[0] == "mask":
        return S.Vector(list(key[1])) if key[2] == "vector" else list(key[1])
    raw = list(key[1])
    return raw if key[2] == "list" else (tuple(raw) if key[2] == "tuple" else S.Vector(raw))


def make_value(value):
    f = value[0]
    if f == "scalar":
        return value[1]
    if f == "list":
        return list(value[1])
    if f == "tuple":
        return tuple(value[1])
    if f == "vector":
        return S.Vector(list(value[1]))
    if f == "range":
        return range(value[1], value[1] + value[2])
    if f == "gen":
        return (x for x in list(value[1]))
    if f == "boom_iter":
        return RaisingIter(value[1], value[2])
    if f == "boom_len":
        return BadLen(value[1])
    return Liar(value[1], value[2])


def model(vals, key, value):
    """reference: -> ("error", why) or ("ok", {position: new value}) following list assignment semantics
    (scalar broadcast, same-length rule, later duplicate index wins)"""
    n = len(vals)
    f = key[0]
    if value[0] == "liar":
        return ("unspecified", None)
    if f == "int":
        i = key[1]
        if not (-n <= i < n):
            return ("error", "index")
        idxs = [i % n]
    elif f == "slice":
        idxs = list(range(*slice(key[1], key[2], key[3]).indices(n)))
    elif f == "mask":
        if len(key[1]) != n:
            return ("error", "mask-length")
        idxs = [i for i, b in enumerate(key[1]) if b]
    else:
        if any(not (-n <= i < n) for i in key[1]):
            return ("error", "index")
        idxs = [i % n for i in key[1]]
    vf = value[0]
    if vf == "scalar":
        seq = [value[1]] * len(idxs)
    elif vf == "boom_len":
        return ("error", "value-raises")
    elif vf == "boom_iter":
        # zip(indices, value) consumes exactly len(indices) elements: the iterable raises only if
        # its failure point lies among them
        if f == "int":
            return ("unspecified", None)
        if len(value[1]) != len(idxs):
            return ("error", "length")
        if value[2] < len(idxs):
            return ("error", "value-raises")
        seq = list(value[1])
    elif vf == "liar":
        return ("unspecified", None)
    elif vf == "range":
        seq = list(range(value[1], value[1] + value[2]))
    elif vf == "gen":
        if f == "int":
            seq = None
        else:
            return ("error-or-ok-gen", (idxs, list(value[1])), list(value[1]))
    else:
        seq = list(value[1])
    if f == "int" and vf != "scalar":
        return ("unspecified", None)
    if len(seq) != len(idxs):
        return ("error", "length")
    out = {}
    for i, x in zip(idxs, seq):
        out[i] = x
    return ("ok", out, list(seq))


def kind_outcome(vals, schema, assigned):
    """-> ('reject',) | ('keep', nullable) | ('promote', kind, nullable, may_reject)"""
    if schema is None:
        return ("any",)
    K = schema.kind
    nullable = schema.nullable or any(x is None for x in assigned)
    if K is object:
        return ("keep", nullable)
    T = K
    for x in assigned:
        if x is None:
            continue
        t = type(x)
        j = join_kind(T, t)
        if j is object and not (T is object):
            return ("reject",)
        if (K in NUM) != (t in NUM) and (K in TMP) != (t in TMP):
            return ("reject",)
        T = j
    if T is K:
        return ("keep", nullable)
    return ("promote", T, nullable, K is bool)


def _conv(x, T):
    if x is None:
        return None
    if T is float:
        return float(x)
    if T is complex:
        return complex(x)
    if T is int:
        return int(x)
    if T is datetime and type(x) is date:
        return datetime.combine(x, datetime.min.time())
    return x


def _unconvertible(xs, T):
    """some int among xs has no float / complex value in Python (OverflowError)"""
    if T not in (float, complex):
        return False
    for x in xs:
        if type(x) in (int, bool):
            try:
                float(x)
            except OverflowError:
                return True
    return False


def _snap(v):
    s = v.schema()
    return ([freeze(x) for x in v], None if s is None else (s.kind, s.nullable), v.name, len(v))


def run_assign(case, ctx):
    vals = case["vals"]
    if vals and all(isinstance(x, S.Vector) for x in vals):
        return
    v = S.Vector(list(vals), name=NAME)
    if isinstance(v, S.Table):
        return
    schema0 = v.schema()
    fp0 = v.fingerprint() if case["read_fp_first"] else None
    before = _snap(v)
    key, value = case["key"], case["value"]
    m = model(vals, key, value)
    ctx.ev()
    err = None
    try:
        v[make_key(key)] = make_value(value)
    except Exception as e:  # noqa: BLE001
        err = e
    after = _snap(v)
    kf, vf = key[0], value[0]

    def unchanged():
        if after != before:
            what = "contents" if after[0] != before[0] else ("dtype" if after[1] != before[1] else "name-or-length")
            ctx.fail(f"atomicity/{kf}/{vf}/failed-assignment-changed-{what}",
                     f"{vals}[{key}] = {value} raised {type(err).__name__}: {err}; before {before} after {after}")
            return False
        if v.fingerprint() != S.Vector(list(vals)).fingerprint():
            ctx.fail("atomicity/fingerprint-changed-by-failed-assignment", f"{vals}[{key}] = {value}")
            return False
        if fp0 is not None and v.fingerprint() != fp0:
            ctx.fail("atomicity/fingerprint-changed-by-failed-assignment", f"{vals}[{key}] = {value}")
            return False
        return True

    if after[2] != NAME or after[3] != len(vals):
        return ctx.fail("assign/length-or-name-changed", f"{vals}[{key}] = {value}: name {after[2]!r} len {after[3]}")
    if err is not None:
        if not unchanged():
            return
        ctx.label("failed")
        if m[0] == "ok":
            assigned = list(m[2])
            ko = kind_outcome(vals, schema0, assigned)
            if ko[0] == "promote" and _unconvertible(list(vals) + assigned, ko[1]):
                ctx.label("unconvertible_promotion_failed")       # Python cannot convert the column: failing (cleanly) is right
                ctx.nontrivial()
                return
            if ko[0] == "keep" or (ko[0] == "promote" and not ko[3]):
                nn = "none-value" if any(x is None for x in assigned) else ko[0]
                return ctx.fail(f"assign/{kf}/{vf}/valid-assignment-rejected/{nn}",
                                f"{vals} [{schema0}] [{key}] = {value}: {type(err).__name__}: {err}")
            if ko[0] == "reject" and not isinstance(err, S.SerifTypeError):
                return ctx.fail("assign/incompatible-value-wrong-exception", f"{vals}[{key}] = {value}: {type(err).__name__} (SerifTypeError expected)")
        if vf == "boom_iter" and value[2] >= 1:
            ctx.nontrivial()
        return
    # ---- the assignment reported success
    if m[0] == "error":
        return ctx.fail(f"assign/{kf}/{vf}/invalid-assignment-accepted/{m[1]}", f"{vals}[{key}] = {value}: after {after[0]}")
    if m[0] in ("unspecified",):
        ctx.label("unspecified_outcome")
        return
    if m[0] == "error-or-ok-gen":
        idxs, seq = m[1]
        if len(idxs) != len(seq):
            return ctx.fail("assign/gen/length-mismatch-accepted", f"{vals}[{key}] = generator of {len(seq)}")
        new = dict(zip(idxs, seq))
    else:
        new = m[1]
    assigned = list(m[2])          # every supplied value is assigned at some moment (duplicate indices)
    ko = kind_outcome(vals, schema0, assigned)
    if ko[0] == "reject":
        first = next(i for i, x in enumerate(assigned) if x is not None and join_kind(schema0.kind, type(x)) is object or
                     (x is not None and (schema0.kind in NUM) != (type(x) in NUM) and (schema0.kind in TMP) != (type(x) in TMP)))
        pos = "first" if first == 0 else "later"
        return ctx.fail(f"assign/{kf}/incompatible-value-accepted/{pos}",
                        f"{vals} [{schema0}] [{key}] = {value}: stored {after[0]} as {after[1]}")
    T = ko[1] if ko[0] == "promote" else (schema0.kind if schema0 is not None else None)
    if ko[0] == "promote" and _unconvertible(list(vals) + assigned, T):
        ctx.label("unspecified_outcome")
        return
    got = list(v)
    sc = v.schema()
    if ko[0] != "any" and vals:
        if sc is None:
            return ctx.fail("assign/schema-lost", f"{vals}[{key}] = {value}")
        if ko[0] == "keep" and sc.kind is not schema0.kind:
            return ctx.fail("assign/kind-changed-without-need", f"{vals} [{schema0}] [{key}] = {value} -> {sc}")
        if ko[0] == "promote" and sc.kind is not T:
            which = "partial" if sc.kind is not schema0.kind else "none"
            return ctx.fail(f"assign/{kf}/promotion-incomplete/{which}", f"{vals} [{schema0}] [{key}] = {value}: kind {sc.kind.__name__}, values need {T.__name__}; stored {got}")
        if ko[1 if ko[0] == 'keep' else 2] and not sc.nullable and any(x is None for x in got):
            return ctx.fail("assign/none-stored-but-not-nullable", f"{vals} [{schema0}] [{key}] = {value} -> {got} {sc}")
        if schema0.nullable and not sc.nullable:
            return ctx.fail("assign/nullable-dropped", f"{schema0} -> {sc}")
    for i in range(len(vals)):
        if i in new:
            if not same(got[i], new[i]) and not (ko[0] == "promote" and same(got[i], _conv(new[i], T))):
                return ctx.fail(f"assign/{kf}/{vf}/assigned-position-wrong", f"{vals}[{key}] = {value}: position {i} is {got[i]!r}, list assignment gives {new[i]!r}")
        else:
            want = _conv(vals[i], T) if ko[0] == "promote" else vals[i]
            if not same(got[i], want):
                tag = "existing-element-not-converted" if (ko[0] == "promote" and same(got[i], vals[i])) else "untouched-position-changed"
                return ctx.fail(f"assign/{kf}/{tag}", f"{vals}[{key}] = {value}: position {i} is {got[i]!r}, expected {want!r}")
    # fingerprint equals a fresh build (also when it was read, and cached, before the write)
    if v.fingerprint() != S.Vector(list(got)).fingerprint():
        return ctx.fail("assign/fingerprint-stale-after-write", f"{vals}[{key}] = {value}")
    ctx.label("succeeded")
    ctx.label("promoted", int(ko[0] == "promote"))
    if ko[0] == "promote" or (kf == "index" and len(set(i % len(vals) for i in key[1])) < len(key[1])):
        ctx.nontrivial()


# ---------------------------------------------------------------- tables
@st.composite
def table_case(draw, tier="quick"):
    n = draw(st.integers(1, 5))
    k = draw(st.integers(1, 4))
    form = draw(st.sampled_from(["cell", "row", "row2", "column", "region_scalar", "region_cols", "region_table", "mask_scalar",
                                 "rows_list", "rows_list", "rows_mask", "row_from_column"]))
    if form == "row_from_column":
        k = n = draw(st.integers(2, 4))        # a square table: one of its own (live) columns is assigned as a row
    kinds = [draw(st.sampled_from(["int", "float", "str", "bool"] if form != "row_from_column" else ["int", "int", "float"])) for _ in range(k)]
    cols = [(f"c{i}", draw(V.column(kind=kinds[i], min_size=n, max_size=n, elements=_small(kinds[i])))[1]) for i in range(k)]
    r = draw(st.integers(-n - 1, n))
    c = draw(st.integers(0, k - 1))
    r0, r1 = sorted([draw(st.integers(0, n)), draw(st.integers(0, n))])
    c0, c1 = sorted([draw(st.integers(0, k)), draw(st.integers(0, k))])
    byname = draw(st.booleans())
    bad = draw(st.sampled_from([None, None, "type", "length"]))
    vals = {}
    vk = lambda j: _small(kinds[j]) if bad != "type" else st.sampled_from([date(2020, 1, 1), b"x"])
    if form == "cell":
        vals = {"x": draw(vk(c))}
    elif form in ("row", "row2"):
        ln = k if bad != "length" else k + 1
        row = [draw(_small(kinds[j % k])) for j in range(ln)]
        if bad == "type":
            row[draw(st.integers(0, ln - 1))] = date(2020, 1, 1)
        vals = {"row": row}
    elif form == "column":
        ln = n if bad != "length" else n + 1
        colv = [draw(_small(kinds[c])) for _ in range(ln)]
        if bad == "type" and colv:
            colv[draw(st.integers(0, ln - 1))] = b"x"
        vals = {"col": colv}
    elif form == "row_from_column":
        vals = {}
    elif form in ("rows_list", "rows_mask"):
        # rows given as an index list / tuple / vector or as a boolean mask, columns by position, slice or name(s); a scalar value
        rows = draw(st.lists(st.integers(-n, n - 1), min_size=1, max_size=3))
        colsel = draw(st.sampled_from(["int", "all", "slice", "name", "names", "mixed"]))
        vals = {"x": draw(vk(c)) if colsel in ("int", "name") else draw(st.integers(-3, 3)) if all(kd in ("int", "float") for kd in kinds) else None,
                "rows": rows, "rows_form": draw(st.sampled_from(["list", "tuple", "vector"])), "colsel": colsel,
                "mask": draw(st.lists(st.booleans(), min_size=n, max_size=n)), "as_list1": draw(st.integers(0, 3)) == 0}
    elif form in ("region_scalar", "mask_scalar"):
        vals = {"x": draw(vk(c0 if c0 < k else 0)), "mask": draw(st.lists(st.booleans(), min_size=n, max_size=n))}
    else:
        h, w = r1 - r0, c1 - c0
        hh = h if bad != "length" else h + 1
        block = [[draw(_small(kinds[c0 + j])) for _ in range(hh)] for j in range(w)]
        if bad == "type" and w and hh:
            block[w - 1][hh - 1] = date(2020, 1, 1)
        vals = {"block": block}
    swap = draw(st.sampled_from([None, None, "swap", "rotate", "fresh"])) if k >= 2 else None
    return {"cols": cols, "form": form, "r": r, "c": c, "r0": r0, "r1": r1, "c0": c0, "c1": c1, "byname": byname, "vals": vals,
            "view_renames": swap}


def _widened_cell(o, g):
    """g is the old cell o after a documented promotion of its whole column"""
    if o is None or g is None:
        return o is None and g is None
    if type(o) in NUM and type(g) in NUM and NUM.index(type(g)) > NUM.index(type(o)):
        return g == o
    if type(o) is date and type(g) is datetime:
        return g == datetime.combine(o, datetime.min.time())
    return False


def run_table(case, ctx):
    cols = case["cols"]
    n, k = len(cols[0][1]), len(cols)
    t = R.build_table(cols)
    if case.get("view_renames"):
        # rename columns through their live views (no attribute access / dir() afterwards): the names move to other columns
        names = [nm for nm, _ in cols]
        if case["view_renames"] == "swap":
            new_names = [names[1], names[0]] + names[2:]
        elif case["view_renames"] == "rotate":
            new_names = names[1:] + names[:1]
        else:
            new_names = [f"n{j}" for j in range(len(names))]
        views = [t.cols()[j] for j in range(len(names))]
        for j, vw in enumerate(views):
            vw.name = f"tmp{j}"
        for j, vw in enumerate(views):
            vw.name = new_names[j]
        # from here on column j is called new_names[j]; the case addresses columns by position c -> name
        colname = lambda j: new_names[j]          # noqa: E731
    else:
        colname = lambda j: f"c{j}"               # noqa: E731
    before = [[freeze(x) for x in c] for c in t.cols()]
    form, vals = case["form"], case["vals"]
    r, c = case["r"], case["c"]
    rs, cs = slice(case["r0"], case["r1"]), slice(case["c0"], case["c1"])
    addressed = set()
    want = {}
    ok_model = True
    if form == "cell":
        key = (r, colname(c) if case["byname"] else c)
        value = vals["x"]
        if -n <= r < n:
            addressed = {(r % n, c)}
            want = {(r % n, c): value}
        else:
            ok_model = False
    elif form == "row_from_column":
        # the value is a live column of the table itself: its cells as they were when the assignment started
        key = (r, slice(None))
        value = t.cols()[c]
        snapshot_ = list(cols[c][1])
        if -n <= r < n:
            addressed = {(r % n, j) for j in range(k)}
            want = {(r % n, j): snapshot_[j] for j in range(k)}
        else:
            ok_model = False
    elif form in ("row", "row2"):
        key = r if form == "row" else (r, slice(None))
        value = list(vals["row"])
        if -n <= r < n and len(value) == k:
            addressed = {(r % n, j) for j in range(k)}
            want = {(r % n, j): value[j] for j in range(k)}
        else:
            ok_model = False
            addressed = {(r % n, j) for j in range(k)} if -n <= r < n else set()
    elif form == "column":
        key = (slice(None), colname(c) if case["byname"] else c)
        value = list(vals["col"])
        addressed = {(i, c) for i in range(n)}
        if len(value) == n:
            want = {(i, c): value[i] for i in range(n)}
        else:
            ok_model = False
    elif form == "region_scalar":
        key = (rs, cs)
        value = vals["x"]
        addressed = {(i, j) for i in range(*rs.indices(n)) for j in range(*cs.indices(k))}
        want = {p: value for p in addressed}
    elif form in ("rows_list", "rows_mask"):
        if form == "rows_list":
            rows_ = [i % n for i in vals["rows"]]
            rk_ = {"list": list, "tuple": tuple, "vector": lambda x: S.Vector(list(x))}[vals["rows_form"]](vals["rows"])
        else:
            rows_ = [i for i in range(n) if vals["mask"][i]]
            rk_ = list(vals["mask"]) if vals["rows_form"] != "vector" else S.Vector(list(vals["mask"]))
        cs_ = vals["colsel"]
        cols_ = {"int": [c], "name": [c], "all": list(range(k)), "slice": list(range(*cs.indices(k))), "names": list(range(*cs.indices(k))),
                 "mixed": [c, (c + 1) % k] if k >= 2 else [c]}[cs_]
        if cs_ == "mixed":
            ck_ = [cols_[0], colname(cols_[1])] if len(cols_) == 2 else [cols_[0]]        # a position before a name
        else:
            ck_ = {"int": c, "name": colname(c), "all": slice(None), "slice": cs, "names": [colname(j) for j in cols_]}[cs_]
        if cs_ == "names" and not cols_:
            return
        key = (rk_, ck_)
        value = vals["x"]
        addressed = {(i, j) for i in rows_ for j in cols_}
        want = {p: value for p in addressed}
        if vals.get("as_list1") and cs_ in ("int", "name") and value is not None:
            # the value as a one-element list / tuple: one value for one cell - for any other number of rows a length mismatch
            value = [value] if vals["rows_form"] != "tuple" else (value,)
            if len(rows_) != 1:
                ok_model = False
        if cs_ == "mixed" and len(cols_) == 2 and rows_:
            # one row, two columns named in this order (a position, then a name), one value for each: the order pairs them up
            kd_ = [ref_dtype(cols[j][1])[0] for j in cols_]
            pick_ = {int: (7, 8), float: (7.5, 8.5), str: ("p", "q"), bool: (True, False), object: (7, 8)}
            value = [pick_.get(kd_[0], (7, 8))[0], pick_.get(kd_[1], (7, 8))[1]]
            key = (rows_[0], ck_)
            addressed = {(rows_[0], cols_[0]), (rows_[0], cols_[1])}
            want = {(rows_[0], cols_[0]): value[0], (rows_[0], cols_[1]): value[1]}
    elif form == "mask_scalar":
        m = vals["mask"]
        key = S.Vector(list(m))
        value = vals["x"]
        addressed = {(i, j) for i in range(n) if m[i] for j in range(k)}
        want = {p: value for p in addressed}
    else:
        key = (rs, cs)
        block = vals["block"]
        rows_, cols_ = list(range(*rs.indices(n))), list(range(*cs.indices(k)))
        addressed = {(i, j) for i in rows_ for j in cols_}
        if not cols_:
            value = block
            want = {}
        else:
            if form == "region_table":
                if not block or not block[0]:
                    return
                value = R.build_table([(f"b{j}", block[j]) for j in range(len(block))])
            else:
                value = [list(b) for b in block]
            if all(len(b) == len(rows_) for b in block) and len(block) == len(cols_):
                want = {(rows_[a], cols_[b]): block[b][a] for a in range(len(rows_)) for b in range(len(cols_))}
            else:
                ok_model = False
    # kinds: a value not on the column ladder must be rejected
    kinds = [ref_dtype(cv)[0] for _, cv in cols]

    def cls_of(j, x):
        if x is None or kinds[j] is object or type(x) is kinds[j]:
            return "ok"
        jk = join_kind(kinds[j], type(x))
        if jk is object:
            return "reject"
        if jk is kinds[j]:
            return "ok"
        return "maybe" if kinds[j] is bool else "ok"

    classes = {cls_of(j, x) for (i, j), x in want.items()}
    type_ok = "reject" not in classes
    type_maybe = "maybe" in classes
    ctx.ev()
    err = None
    try:
        t[key] = value
    except Exception as e:  # noqa: BLE001
        err = e
    after = [[freeze(x) for x in c_] for c_ in t.cols()]
    if len(after) != k or any(len(c_) != n for c_ in after):
        return ctx.fail(f"table/{form}/shape-changed", f"{cols} [{key}] = {value}")
    for j in range(k):
        for i in range(n):
            if (i, j) not in addressed and after[j][i] != before[j][i] and not _widened_cell(cols[j][1][i], list(t.cols()[j])[i]):
                return ctx.fail(f"table/{form}/cell-outside-addressed-region-changed", f"{cols} [{case}] cell ({i},{j}) {before[j][i]} -> {after[j][i]}")
    if err is None:
        if not ok_model:
            return ctx.fail(f"table/{form}/invalid-assignment-accepted", f"{cols} [{key}] = {value} -> {after}")
        if not type_ok:
            return ctx.fail(f"table/{form}/incompatible-value-accepted", f"{cols} [{key}] = {value} -> {after}")
        for (i, j), x in want.items():
            g = list(t.cols()[j])[i]
            if not (same(g, x) or (g == x and type(g) in NUM and type(x) in NUM)):
                return ctx.fail(f"table/{form}/addressed-cell-wrong", f"{cols} [{key}] = {value}: cell ({i},{j}) = {g!r} want {x!r}")
        for (i, j) in addressed - set(want):
            if after[j][i] != before[j][i] and not _widened_cell(cols[j][1][i], list(t.cols()[j])[i]):
                return ctx.fail(f"table/{form}/addressed-cell-wrong", f"cell ({i},{j}) changed without a value")
        ctx.label("succeeded")
        if len(addressed) > 1:
            ctx.nontrivial()
    else:
        # failed: every column is either untouched or completely written (per-vector atomicity)
        partial_cols = 0
        for j in range(k):
            ch = [i for i in range(n) if after[j][i] != before[j][i] and not _widened_cell(cols[j][1][i], list(t.cols()[j])[i])]
            if ch:
                exp = [i for i in range(n) if (i, j) in want]
                full = all(same(list(t.cols()[j])[i], want[(i, j)]) or list(t.cols()[j])[i] == want[(i, j)] for i in exp) if exp else False
                if not full:
                    return ctx.fail(f"table/{form}/column-partially-written-by-failed-assignment",
                                    f"{cols} [{key}] = {value} raised {type(err).__name__}; column {j}: {before[j]} -> {after[j]}")
                partial_cols += 1
        if partial_cols:
            ctx.count("table_partial_rows")
        if ok_model and type_ok and not type_maybe:
            return ctx.fail(f"table/{form}/valid-assignment-rejected", f"{cols} [{key}] = {value}: {type(err).__name__}: {err}")
        ctx.label("failed")
        ctx.nontrivial()


# ---------------------------------------------------------------- rename_columns atomicity
@st.composite
def rename_case(draw, tier="quick"):
    k = draw(st.integers(1, 5))
    names = draw(st.lists(st.sampled_from(["a", "b", "c", "a b", None, "A"]), min_size=k, max_size=k))
    m = draw(st.integers(0, 4))
    olds = draw(st.lists(st.sampled_from(["a", "b", "c", "a b", "A", "zz", None]), min_size=m, max_size=m))
    news = draw(st.lists(st.sampled_from(["a", "x", "y", "b", "new name", None]), min_size=m, max_size=m))
    if draw(st.integers(0, 5)) == 0:
        news = news + ["extra"]
    return {"names": names, "olds": olds, "news": news}


def run_rename(case, ctx):
    names = case["names"]
    t = R.build_table([(nm, [1, 2]) for nm in names])
    cells = [list(c) for c in t.cols()]
    olds, news = case["olds"], case["news"]
    # model: each pair renames the first column currently carrying the old name (simulated sequentially)
    sim = list(names)
    ok = len(olds) == len(news)
    if ok:
        for o, nw in zip(olds, news):
            if o in sim:
                sim[sim.index(o)] = nw
            else:
                ok = False
                break
    ctx.ev()
    err = None
    try:
        t.rename_columns(list(olds), list(news))
    except Exception as e:  # noqa: BLE001
        err = e
    got = list(t.column_names())
    if [list(c) for c in t.cols()] != cells:
        return ctx.fail("rename/cells-changed", f"{names} rename {olds}->{news}")
    if err is not None:
        if got != list(names):
            return ctx.fail("rename/failed-rename-changed-names", f"{names} rename {olds}->{news} raised {type(err).__name__}; names now {got}")
        if ok:
            return ctx.fail("rename/valid-rename-rejected", f"{names} rename {olds}->{news}: {err}")
        ctx.label("failed")
        if olds and olds[0] in names:
            ctx.nontrivial()
        return
    if not ok:
        return ctx.fail("rename/invalid-rename-accepted", f"{names} rename {olds}->{news} -> {got}")
    if got != sim:
        chained = any(nw in olds[i + 1:] for i, nw in enumerate(news))
        return ctx.fail(f"rename/result-differs-from-sequential-model/{'chained' if chained else 'plain'}", f"{names} rename {olds}->{news}: got {got} model {sim}")
    ctx.label("succeeded")


def parts(tier):
    return [
        Part("vector_assign", run_assign, strategy=lambda t: assign_case(t), examples=(6000, 200000), shards=(8, 16),
             floors={"failed": 0.15, "succeeded": 0.2, "promoted": 0.02}),
        Part("table_assign", run_table, strategy=lambda t: table_case(t), examples=(2500, 60000), shards=(4, 16),
             floors={"failed": 0.1, "succeeded": 0.3}),
        Part("rename", run_rename, strategy=lambda t: rename_case(t), examples=(1500, 30000), shards=(2, 16),
             floors={"failed": 0.1, "succeeded": 0.2}),
    ]
