"""C09 — inner join returns exactly the key-equal row pairs, in left-major order."""
from harness.loader import load
from harness.runner import Part, Violation, draw_corpus, run_case
from harness import relational as R
from harness import codec
from harness.refmodel import ref_inner, pairs_to_rows

S = load()

PROPERTY = "C09"
LEVEL_TEXT = 'Exploration against a nested-loop reference join (rows and order) with generated keys of 1-3 components incl. None, many-to-many buckets and external key vectors; the same corpus re-executed under 4 (thorough 7) PYTHONHASHSEED values.'
LEVEL_NOTE = 'A join may refuse key columns whose lattice kinds differ.'
DESIGN_REF = "DESIGN.md §5 C09"
ENGINE = "relational"
TECHNIQUE = "property-based testing: Hypothesis-generated table pairs vs a nested-loop reference join; same corpus re-executed under several PYTHONHASHSEED values"
RULE = ("two generated tables (0..6 rows quick / 0..12 thorough, 0..2 payload columns with possibly equal names, "
        "1..3 key columns over int/str/bool/date/None from alphabets of size 1..4; key given by name, list of "
        "names, the table's own column vector or an external vector). Non-trivial = a key value duplicated on "
        "both sides (many-to-many bucket), or a composite key agreeing on a proper subset of components, or a "
        "None key on both sides; distinct = distinct case encoding.")
ASSUMPTIONS = [
    "key tuples are compared with Python tuple equality (None == None); a join may refuse with SerifTypeError only when the lattice kinds of a key pair differ",
    "an inner join with zero result rows is not asked for column names (the statement is silent)",
]


def oracle(case, ctx, label=True):
    r = R.realise(case)
    lt, rt, lon, ron, lkeys, rkeys, lkc, rkc = r
    snap_l, snap_r = R.snapshot_table(lt), R.snapshot_table(rt)
    lrows, rrows = R.cells(lt), R.cells(rt)
    cls = R.classify_join(lkeys, rkeys)
    if label:
        for k, v in cls.items():
            ctx.label(k, int(v))
    ctx.ev()
    args_before = [list(x) if isinstance(x, list) else None for x in (lon, ron)]
    try:
        res = lt.inner_join(rt, lon, ron, expect="many_to_many")
    except S.SerifTypeError as e:
        if R.refusal_is_legit(lkc, rkc):
            ctx.label("legit_refusal")
            return
        return ctx.fail("inner/refused-joinable-keys", f"{e}")
    pairs = ref_inner(lrows, rrows, lkeys, rkeys)
    want = R.frozen_rows(pairs_to_rows(pairs, lrows, rrows, len(lt.cols()), len(rt.cols())))
    got = R.frozen_rows(R.cells(res))
    if got != want:
        if sorted(map(repr, got)) == sorted(map(repr, want)):
            return ctx.fail("inner/row-order", f"rows are right but not ordered by (left pos, right pos): got {got} want {want}")
        if len(got) < len(want):
            return ctx.fail("inner/rows-missing", f"got {len(got)} rows, reference has {len(want)}: got {got} want {want}")
        if len(got) > len(want):
            return ctx.fail("inner/rows-extra", f"got {len(got)} rows, reference has {len(want)}: got {got} want {want}")
        return ctx.fail("inner/cells", f"got {got} want {want}")
    if len(res) != len(pairs):
        return ctx.fail("inner/len", f"len(result)={len(res)} but {len(pairs)} pairs")
    if pairs:
        names = list(lt.column_names()) + list(rt.column_names())
        if list(res.column_names()) != names:
            return ctx.fail("inner/column-names", f"got {res.column_names()} want {names}")
    if R.snapshot_table(lt) != snap_l or R.snapshot_table(rt) != snap_r:
        return ctx.fail("inner/input-modified", "an input table changed during inner_join")
    # every expectation the keys satisfy gives the very same result (the pairs do not depend on what the caller expects)
    lu_ = all(lkeys[i] != lkeys[j] for i in range(len(lkeys)) for j in range(i + 1, len(lkeys)))
    ru_ = all(rkeys[i] != rkeys[j] for i in range(len(rkeys)) for j in range(i + 1, len(rkeys)))
    for ex_, (nl_, nr_) in (("one_to_one", (True, True)), ("many_to_one", (False, True)), ("one_to_many", (True, False))):
        if (nl_ and not lu_) or (nr_ and not ru_):
            continue
        ctx.ev()
        try:
            rx = lt.inner_join(rt, lon, ron, expect=ex_)
        except Exception as e:  # noqa: BLE001
            return ctx.fail(f"inner/{ex_}/raised-although-the-expectation-holds/{type(e).__name__}", f"left keys {lkeys} right keys {rkeys}: {e}")
        if R.frozen_rows(R.cells(rx)) != want:
            return ctx.fail(f"inner/{ex_}/rows-differ-from-the-key-equal-pairs", f"left keys {lkeys} right keys {rkeys}: got {R.cells(rx)} want {want}")
    if lkeys and len(lkeys) <= 12:
        ctx.ev()
        try:
            rs_ = lt.inner_join(lt, lon, lon, expect="many_to_many")
        except S.SerifTypeError:
            rs_ = None                  # (key kinds the library does not join on)
        except Exception as e:  # noqa: BLE001
            return ctx.fail(f"inner/self-join/raised/{type(e).__name__}", f"left keys {lkeys}: {e}")
        if rs_ is not None:
            want_s = R.frozen_rows(pairs_to_rows(ref_inner(lrows, lrows, lkeys, lkeys), lrows, lrows, len(lt.cols()), len(lt.cols())))
            if R.frozen_rows(R.cells(rs_)) != want_s:
                return ctx.fail("inner/self-join/rows", f"left keys {lkeys}: got {R.cells(rs_)} want {want_s}")
    for side_, arg, was in (("left_on", lon, args_before[0]), ("right_on", ron, args_before[1])):
        if was is not None and (len(arg) != len(was) or any(x is not y for x, y in zip(arg, was))):
            return ctx.fail("inner/key-list-argument-modified", f"the {side_} list the caller passed was rewritten by the join: {was} -> {arg}")
    # the same join again after an in-place edit of one right key cell (a cached index would be stale now)
    if case["nr"] >= 1 and case["nl"] >= 1 and not case["R"].get("repeat"):      # (an edited column that feeds two key components: not modelled here)
        spec = case["R"]["specs"][0]
        if spec[0] in ("name", "own"):
            kc = [nm for nm, _ in case["R"]["cols"]].index(spec[1]) if spec[0] == "name" else spec[1]
            newv = lkeys[0][0]
            if newv is not None and type(newv) is type(next((x for x in rkc[0] if x is not None), newv)):
                try:
                    rt.cols()[kc][case["nr"] - 1] = newv
                    edited = True
                except Exception:  # noqa: BLE001
                    edited = False
                if edited:
                    ctx.ev()
                    rkeys2 = [tuple(newv if (i == case["nr"] - 1 and c == 0) else k[c] for c in range(len(k))) for i, k in enumerate(rkeys)]
                    rrows2 = R.cells(rt)
                    lon2 = lon if not isinstance(lon, list) else list(lon)
                    try:
                        res2 = lt.inner_join(rt, lon2, ron, expect="many_to_many")
                    except S.SerifTypeError:
                        res2 = None
                    if res2 is not None:
                        want2 = R.frozen_rows(pairs_to_rows(ref_inner(lrows, rrows2, lkeys, rkeys2), lrows, rrows2, len(lt.cols()), len(rt.cols())))
                        if R.frozen_rows(R.cells(res2)) != want2:
                            return ctx.fail("inner/stale-after-in-place-edit-of-right-key",
                                            f"after R key cell {case['nr'] - 1} := {newv!r}: got {R.cells(res2)} want {want2}")
    if cls["m2m"] or cls["partial"] or cls["none_both"]:
        ctx.nontrivial()


def run(case, ctx):
    oracle(case, ctx)


def digest(case):
    lt, rt, lon, ron, *_ = R.realise(case)
    res = []
    for kind in ("inner_join", "join", "full_join"):
        try:
            t = getattr(lt, kind)(rt, lon, ron, expect="many_to_many")
            res.append((kind, list(t.column_names()), R.frozen_rows(R.cells(t))))
        except S.SerifTypeError:
            res.append((kind, "SerifTypeError"))
    return codec.hhex(repr(res))


def hash_configs(ctx, tier, seed):
    """configurations quantifier: identical results under every PYTHONHASHSEED"""
    n = 300 if tier == "quick" else 3000
    corpus = draw_corpus(R.join_case(tier), n, seed)
    texts = [codec.encode(c) for c in corpus]
    seeds = [0, 1, 2 ** 31, seed % (2 ** 32 - 1) + 2] + ([7, 12345, 4294967295] if tier == "thorough" else [])
    here = []
    for c in corpus:
        try:
            here.append(digest(c))
        except Exception as e:  # noqa: BLE001
            here.append(f"EXC:{type(e).__name__}")
    got = R.run_children("C09", texts, seeds, "join")
    failures = []
    for hs, ds in got.items():
        ctx.evals += len(ds)
        for i, (a, b) in enumerate(zip(here, ds)):
            if a != b:
                failures.append(("C09/hashseed/result-differs", codec.encode({"part": "join", "case": corpus[i]}),
                                 f"PYTHONHASHSEED={hs} gives a different join result than PYTHONHASHSEED=0"))
                break
    ctx.examples += len(corpus)
    ctx.labels["hash_configs:cases"] += len(corpus)
    ctx.labels["hash_configs:seeds"] += len(seeds)
    ctx.labels["hash_configs:str_keys"] += sum(1 for c in corpus if "str" in c["kinds"])
    return failures[:1]


def parts(tier):
    return [
        Part("join", run, strategy=lambda t: R.join_case(t), examples=(3000, 160000), shards=(6, 16),
             floors={"m2m": 0.05, "partial": 0.03, "none_both": 0.03}),
        Part("hash_configs", run, custom=hash_configs),
    ]
