"""C10 — left and full outer joins keep every row and pad with None."""
from collections import Counter

from harness.loader import load
from harness.runner import Part
from harness import relational as R
from harness.refmodel import ref_inner, ref_left, ref_full, pairs_to_rows

S = load()

PROPERTY = "C10"
LEVEL_TEXT = 'Exploration against reference left / full joins plus metamorphic relations (inner in left in full, every row kept, swap symmetry).'
LEVEL_NOTE = 'As C09.'
DESIGN_REF = "DESIGN.md §5 C10"
ENGINE = "relational"
TECHNIQUE = "property-based testing: generated table pairs vs nested-loop reference left/full joins, plus metamorphic containment and swap relations"
RULE = ("table pairs as for C09 with right-side key alphabets shifted/subsetted so that unmatched rows on both "
        "sides are common. Non-trivial = at least one unmatched row on each side and at least one matched pair; "
        "distinct = distinct case encoding.")
ASSUMPTIONS = [
    "key equality is Python tuple equality (None == None)",
    "a join may refuse with SerifTypeError only when the lattice kinds of a key pair differ",
    "a left join of a zero-row left table / a full join of two zero-row tables is not asked for column names",
]


def _cmp(ctx, kind, got, want, extra=""):
    if got == want:
        return False
    if sorted(map(repr, got)) == sorted(map(repr, want)):
        return ctx.fail(f"{kind}/row-order", f"right rows, wrong order: got {got} want {want} {extra}")
    if len(got) < len(want):
        return ctx.fail(f"{kind}/rows-missing", f"got {len(got)} rows want {len(want)}: got {got} want {want} {extra}")
    if len(got) > len(want):
        return ctx.fail(f"{kind}/rows-extra", f"got {len(got)} rows want {len(want)}: got {got} want {want} {extra}")
    return ctx.fail(f"{kind}/cells", f"got {got} want {want} {extra}")


def run(case, ctx):
    lt, rt, lon, ron, lkeys, rkeys, lkc, rkc = R.realise(case)
    snap_l, snap_r = R.snapshot_table(lt), R.snapshot_table(rt)
    lrows, rrows = R.cells(lt), R.cells(rt)
    nl, nr = len(lt.cols()), len(rt.cols())
    cls = R.classify_join(lkeys, rkeys)
    for k, v in cls.items():
        ctx.label(k, int(v))
    ctx.label("first_left_unmatched", int(bool(lkeys) and lkeys[0] not in rkeys))
    ctx.label("dup_unmatched_right", int(any(rkeys.count(k) > 1 and k not in lkeys for k in rkeys)))
    results = {}
    for kind in ("inner_join", "join", "full_join"):
        ctx.ev()
        try:
            results[kind] = getattr(lt, kind)(rt, lon, ron, expect="many_to_many")
        except S.SerifTypeError as e:
            if R.refusal_is_legit(lkc, rkc):
                ctx.label("legit_refusal")
                return
            return ctx.fail(f"{kind}/refused-joinable-keys", str(e))
    names = list(lt.column_names()) + list(rt.column_names())
    # left join
    want_left = R.frozen_rows(pairs_to_rows(ref_left(lrows, rrows, lkeys, rkeys), lrows, rrows, nl, nr))
    got_left = R.frozen_rows(R.cells(results["join"]))
    if _cmp(ctx, "left", got_left, want_left):
        return
    if want_left and list(results["join"].column_names()) != names:
        return ctx.fail("left/column-names", f"got {results['join'].column_names()} want {names}")
    if len(results["join"]) != len(want_left):
        return ctx.fail("left/len", f"len={len(results['join'])} rows={len(want_left)}")
    # full join
    want_full = R.frozen_rows(pairs_to_rows(ref_full(lrows, rrows, lkeys, rkeys), lrows, rrows, nl, nr))
    got_full = R.frozen_rows(R.cells(results["full_join"]))
    if _cmp(ctx, "full", got_full, want_full):
        return
    if want_full and list(results["full_join"].column_names()) != names:
        return ctx.fail("full/column-names", f"got {results['full_join'].column_names()} want {names}")
    if len(results["full_join"]) != len(want_full):
        return ctx.fail("full/len", f"len={len(results['full_join'])} rows={len(want_full)}")
    # every expectation that holds must give the many_to_many result (row set and order)
    lu = len(set(lkeys)) == len(lkeys)
    ru = len(set(rkeys)) == len(rkeys)
    for ex, ok in (("one_to_one", lu and ru), ("many_to_one", ru), ("one_to_many", lu)):
        if not ok:
            continue
        for kind, want in (("join", want_left), ("full_join", want_full)):
            ctx.ev()
            try:
                r = getattr(lt, kind)(rt, lon, ron, expect=ex)
            except Exception as e:  # noqa: BLE001
                return ctx.fail(f"{kind}/{ex}/raised-although-expectation-holds", f"{type(e).__name__}: {e}")
            if R.frozen_rows(R.cells(r)) != want:
                return ctx.fail(f"{kind}/{ex}/rows-differ-from-reference", f"got {R.cells(r)} want {want}")
    # containment inner <= left <= full as multisets (results of the implementation itself)
    ci = Counter(map(repr, R.frozen_rows(R.cells(results["inner_join"]))))
    cl, cf = Counter(map(repr, got_left)), Counter(map(repr, got_full))
    if ci - cl:
        return ctx.fail("containment/inner-not-in-left", f"{ci - cl}")
    if cl - cf:
        return ctx.fail("containment/left-not-in-full", f"{cl - cf}")
    # every left row appears in the left join; every row of both tables in the full join
    fl = R.frozen_rows(lrows)
    fr = R.frozen_rows(rrows)
    left_parts = Counter(r[:nl] for r in got_left)
    for r in set(fl):
        if left_parts[r] < fl.count(r):
            return ctx.fail("left/left-row-lost", f"left row {r} appears {left_parts[r]}x, occurs {fl.count(r)}x in the input")
    full_l = Counter(r[:nl] for r in got_full)
    full_r = Counter(r[nl:] for r in got_full)
    for r in set(fl):
        if full_l[r] < fl.count(r):
            return ctx.fail("full/left-row-lost", f"{r}")
    for r in set(fr):
        if full_r[r] < fr.count(r):
            return ctx.fail("full/right-row-lost", f"{r}")
    # swap: full_join(R, L) has the same rows up to column-block and row order
    ctx.ev()
    try:
        sw = rt.full_join(lt, ron, lon, expect="many_to_many")
    except S.SerifTypeError as e:
        return ctx.fail("full/swap-refused", str(e))
    got_sw = Counter(repr(r[nr:] + r[:nr]) for r in R.frozen_rows(R.cells(sw)))
    if got_sw != cf:
        return ctx.fail("full/swap-differs", f"full_join(R,L) rows (blocks swapped back) {got_sw} != full_join(L,R) rows {cf}")
    if R.snapshot_table(lt) != snap_l or R.snapshot_table(rt) != snap_r:
        return ctx.fail("outer/input-modified", "an input table changed during a join")
    # the same joins again after an in-place edit of one right key cell: inner <= left <= full must hold for the new contents
    spec = case["R"]["specs"][0]
    if case["nr"] >= 1 and case["nl"] >= 1 and spec[0] in ("name", "own") and lkeys[0][0] is not None and not case["R"].get("repeat"):
        kc = [nm for nm, _ in case["R"]["cols"]].index(spec[1]) if spec[0] == "name" else spec[1]
        newv = lkeys[0][0]
        try:
            rt.cols()[kc][case["nr"] - 1] = newv
            edited = type(newv) is type(next((x for x in rkc[0] if x is not None), newv))
        except Exception:  # noqa: BLE001
            edited = False
        if edited:
            rkeys2 = [tuple(newv if (i == case["nr"] - 1 and c == 0) else k[c] for c in range(len(k))) for i, k in enumerate(rkeys)]
            rrows2 = R.cells(rt)
            for kind, ref in (("inner_join", ref_inner), ("join", ref_left), ("full_join", ref_full)):
                ctx.ev()
                try:
                    r = getattr(lt, kind)(rt, lon, ron, expect="many_to_many")
                except S.SerifTypeError:
                    break
                want = R.frozen_rows(pairs_to_rows(ref(lrows, rrows2, lkeys, rkeys2), lrows, rrows2, nl, nr))
                if R.frozen_rows(R.cells(r)) != want:
                    return ctx.fail(f"{kind}/stale-after-in-place-edit-of-right-key", f"after R key cell := {newv!r}: got {R.cells(r)} want {want}")
    if cls["unmatched_l"] and cls["unmatched_r"] and cls["matched"]:
        ctx.nontrivial()


def parts(tier):
    return [Part("outer", run, strategy=lambda t: R.join_case(t), examples=(3000, 160000), shards=(6, 16),
                 floors={"unmatched_l": 0.2, "unmatched_r": 0.2, "first_left_unmatched": 0.1, "dup_unmatched_right": 0.05})]
