"""C11 — join cardinality expectations are enforced exactly."""
import inspect
import itertools

from hypothesis import strategies as st

from harness.loader import load
from harness.runner import Part
from harness import relational as R

S = load()

PROPERTY = "C11"
LEVEL_TEXT = 'Decision-table exploration: each (join kind, expect, left-unique, right-unique) cell realised by many generated key multisets; oracle computed from the generated keys; invalid expect values and declared defaults included.'
LEVEL_NOTE = 'Uniqueness = pairwise inequality of key tuples under Python ==.'
DESIGN_REF = "DESIGN.md §5 C11"
ENGINE = "relational"
LEVEL = "exploration"
TECHNIQUE = "decision-table enumeration (join kind x expect x left-unique x right-unique) with each cell realised by Hypothesis-generated key multisets; oracle = uniqueness predicate computed from the generated keys"
RULE = ("a target cell (left keys unique?, right keys unique?) is drawn first and key multisets realising it are "
        "constructed (1-2 key components over small alphabets with None, 0..7 rows, duplicates placed anywhere incl. "
        "only among unmatched rows, empty sides); every case is run through 3 join kinds x (4 valid + 9 invalid expect "
        "values + the default). Non-trivial = duplicates on exactly one side; distinct = distinct case encoding.")
ASSUMPTIONS = [
    "'unique keys' = the key tuples of all rows of that side are pairwise unequal under Python == (None == None)",
    "an invalid expect value must be rejected with some exception; a required-uniqueness failure must raise SerifValueError",
    "the default expect is whatever the method signature declares (the statement does not fix defaults)",
]

VALID = ["one_to_one", "many_to_one", "one_to_many", "many_to_many"]
NEEDS = {"one_to_one": (True, True), "many_to_one": (False, True), "one_to_many": (True, False), "many_to_many": (False, False)}
INVALID = ["", None, "MANY_TO_ONE", "one-to-one", "one_to_one ", "many", 0, True, "one_to_many_to_one",
           # near misses of every documented value: surrounding whitespace / newlines, other case, bytes, containers
           "one_to_one\n", "many_to_one\n", "one_to_many\n", "many_to_many\n", "\nmany_to_one", "many_to_many\r\n", " many_to_many",
           "one_to_one\t", "One_To_One", b"one_to_one", ("one_to_one",), ["many_to_many"], "one_to_one\x00", "many_to_many_"]
KINDS = ["inner_join", "join", "full_join"]

U1 = [(0,), (1,), (2,), (3,), (None,)]
U2 = [(a, b) for a in (0, 1, None) for b in ("a", "b", None)]
# distinct keys that hash() cannot tell apart (-1 / -2, 0 / 2**61-1): uniqueness is about equality, not about hashes
U1H = [(-1,), (-2,), (0,), (2 ** 61 - 1,), (1,), (None,)]
U2H = [(a, b) for a in (-1, -2, None) for b in ("a", "b")]


@st.composite
def expect_case(draw, tier="quick"):
    nk = draw(st.sampled_from([1, 1, 2]))
    uni = (U1 if nk == 1 else U2) if draw(st.integers(0, 2)) else (U1H if nk == 1 else U2H)
    lu, ru = draw(st.booleans()), draw(st.booleans())
    mx = 7 if tier == "quick" else 10

    def keys(unique):
        if unique:
            return draw(st.lists(st.sampled_from(uni), unique=True, max_size=min(mx, len(uni))))
        base = draw(st.lists(st.sampled_from(uni), min_size=1, max_size=mx - 1))
        dup = draw(st.sampled_from(base))
        pos = draw(st.integers(0, len(base)))
        return base[:pos] + [dup] + base[pos:]

    lk, rk = keys(lu), keys(ru)
    form = draw(st.sampled_from(["name", "list", "own", "ext"]))
    # a table joined with itself (or one key vector given for both sides): the two sides are the same objects
    self_join = draw(st.integers(0, 5)) == 0
    if self_join:
        rk = list(lk)
    return {"nk": nk, "lk": lk, "rk": rk, "form": form, "extra": draw(st.text(max_size=5)), "self_join": self_join}


def _unique(keys):
    return all(keys[i] != keys[j] for i in range(len(keys)) for j in range(i + 1, len(keys)))


def _build(keys, nk, form, tag):
    cols = [(f"k{c}", [k[c] for k in keys]) for c in range(nk)] + [(f"{tag}v", list(range(len(keys))))]
    t = R.build_table(cols)
    if form == "name":
        on = "k0" if nk == 1 else [f"k{c}" for c in range(nk)]
    elif form == "list":
        on = [f"k{c}" for c in range(nk)]
    elif form == "own":
        on = [t.cols()[c] for c in range(nk)]
    else:
        on = [S.Vector([k[c] for k in keys]) for c in range(nk)]
        if nk == 1:
            on = on[0]
    return t, on, [[k[c] for k in keys] for c in range(nk)]


def _res(t):
    return (list(t.column_names()), R.frozen_rows(R.cells(t)))


def run(case, ctx):
    nk = case["nk"]
    lt, lon, lkc = _build(case["lk"], nk, case["form"], "l")
    rt, ron, rkc = _build(case["rk"], nk, case["form"], "r")
    if case.get("self_join"):
        rt, ron, rkc = lt, lon, lkc
        ctx.label("self_join")
    lu, ru = _unique(case["lk"]), _unique(case["rk"])
    ctx.label(f"cell_lu{int(lu)}_ru{int(ru)}")
    lset, rset = case["lk"], case["rk"]
    dup_unmatched_only = ((not lu) and all(k not in rset for k in lset if lset.count(k) > 1)) or \
                         ((not ru) and all(k not in lset for k in rset if rset.count(k) > 1))
    ctx.label("dup_only_among_unmatched", int(dup_unmatched_only))
    ctx.label("empty_side", int(not lset or not rset))
    if R.refusal_is_legit(lkc, rkc):
        ctx.label("key_kinds_differ")
        return
    for kind in KINDS:
        meth = getattr(lt, kind)
        try:
            base = _res(meth(rt, lon, ron, expect="many_to_many"))
        except S.SerifValueError as e:
            return ctx.fail(f"{kind}/many_to_many-raised", f"many_to_many must never be refused: {e}")
        for ex in VALID[:3]:
            ctx.ev()
            need_l, need_r = NEEDS[ex]
            must_raise = (need_l and not lu) or (need_r and not ru)
            try:
                got = _res(meth(rt, lon, ron, expect=ex))
                raised = None
            except S.SerifValueError as e:
                raised = e
            if must_raise and raised is None:
                side = "left" if (need_l and not lu) else "right"
                return ctx.fail(f"{kind}/{ex}/accepted-duplicate-{side}-keys",
                                f"left keys {case['lk']} right keys {case['rk']}: no SerifValueError")
            if not must_raise and raised is not None:
                which = ("left-dups" if not lu else "left-unique") + "/" + ("right-dups" if not ru else "right-unique")
                return ctx.fail(f"{kind}/{ex}/spurious-refusal/{which}",
                                f"left keys {case['lk']} right keys {case['rk']}: {raised}")
            if not must_raise and got != base:
                return ctx.fail(f"{kind}/{ex}/result-differs-from-many_to_many", f"{got} vs {base}")
        for ex in INVALID + [case["extra"]]:
            if ex in VALID:
                continue
            ctx.ev()
            try:
                meth(rt, lon, ron, expect=ex)
            except Exception:  # noqa: BLE001  (any exception is a rejection)
                continue
            return ctx.fail(f"{kind}/invalid-expect-accepted", f"expect={ex!r} was accepted")
        # default argument = the declared default
        ctx.ev()
        dflt = inspect.signature(meth).parameters["expect"].default
        if dflt in VALID:
            need_l, need_r = NEEDS[dflt]
            must_raise = (need_l and not lu) or (need_r and not ru)
            try:
                got = _res(meth(rt, lon, ron))
                raised = None
            except S.SerifValueError as e:
                raised = e
            if must_raise != (raised is not None):
                return ctx.fail(f"{kind}/default-{dflt}/{'accepted' if must_raise else 'spurious-refusal'}",
                                f"left keys {case['lk']} right keys {case['rk']}: raised={raised}")
            if not must_raise and got != base:
                return ctx.fail(f"{kind}/default/result-differs", f"{got} vs {base}")
    if lu != ru:
        ctx.nontrivial()


def parts(tier):
    return [Part("decision_table", run, strategy=lambda t: expect_case(t), examples=(1600, 64000), shards=(8, 16),
                 floors={"cell_lu0_ru0": 0.07, "cell_lu1_ru0": 0.07, "cell_lu0_ru1": 0.07, "cell_lu1_ru1": 0.07,
                         "dup_only_among_unmatched": 0.03, "empty_side": 0.02})]
