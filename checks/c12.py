"""C12 — group-by aggregation: one row per key in first-appearance order, correct values."""
from harness.loader import load
from harness.runner import Part, draw_corpus
from harness import relational as R
from harness import codec
from harness.refmodel import ref_groups, ref_agg, freeze, same

S = load()

PROPERTY = "C12"
LEVEL_TEXT = 'Exploration against a hand-built insertion-ordered partition with textbook aggregates; outputs located by content (no column-order assumption); recording apply functions; whole-column reductions vs single-group aggregate; PYTHONHASHSEED configurations.'
LEVEL_NOTE = 'mean/stdev compared with relative tolerance 1e-9 (relaxed with data magnitude, never beyond 1e-3).'
DESIGN_REF = "DESIGN.md §5 C12"
ENGINE = "relational"
TECHNIQUE = "property-based testing: generated tables / partitions / aggregate argument sets vs a hand-built insertion-ordered partition with textbook aggregates; corpus re-run under several PYTHONHASHSEED values"
RULE = ("tables of 0..8 (thorough 0..20) rows, 1..3 key columns (by name / own vector / external vector; int, str, bool, "
        "date, None; interleaved groups), 1..3 value columns (int/float/bool/str/date, large-offset numbers, None "
        "anywhere incl. all-None), any subset of the six built-ins over 1..2 columns each, optional recording apply "
        "functions. Each (function, column) is also aggregated on its own so that outputs are located without assuming "
        "a column order. Non-trivial = >=2 groups that interleave and >=1 None in a value column; distinct = case encoding.")
ASSUMPTIONS = [
    "sum/mean/stdev are asserted only for numeric columns (Python defines them); min/max/count for every kind",
    "mean and stdev are compared with relative tolerance 1e-9 (relaxed proportionally to the data magnitude, never beyond 1e-3); everything else exactly",
    "the order of aggregate output columns after the key columns is not asserted (outputs are matched by content)",
]
FUNCS = ["sum", "mean", "min", "max", "count", "stdev"]


def _interleaved(groups):
    # some group has a member after a member of a later-starting group
    return any(g1[1][-1] > g2[1][0] for i, g1 in enumerate(groups) for g2 in groups[i + 1:])


def _col_matches(got, want, tols):
    return len(got) == len(want) and all(
        (R.agg_close(g, w, tol) if isinstance(w, float) or isinstance(g, float) else same(g, w))
        for g, w, tol in zip(got, want, tols))


def run(case, ctx):
    t, over, vspecs, key_tuples = R.realise_group(case)
    n, nk = case["n"], len(case["keys"])
    snap = R.snapshot_table(t)
    groups = ref_groups(key_tuples)
    want_keys = [[g[0][c] for g in groups] for c in range(nk)]
    ctx.label("interleaved", int(_interleaved(groups)))
    ctx.label("none_key", int(any(None in k for k in key_tuples)))
    ctx.label("single_row_group", int(any(len(g[1]) == 1 for g in groups)))

    def check_keys(res, where):
        cols = [list(c) for c in res.cols()]
        if len(cols) < nk:
            return ctx.fail(f"{where}/key-columns-missing", f"{len(cols)} columns")
        for c in range(nk):
            if [freeze(x) for x in cols[c]] != [freeze(x) for x in want_keys[c]]:
                gk = sorted(map(repr, cols[c])) == sorted(map(repr, want_keys[c]))
                return ctx.fail(f"{where}/{'group-order' if gk else 'groups'}",
                                f"key column {c}: got {cols[c]} want {want_keys[c]} (first-appearance order)")
        return False

    # (a) each (function, column) on its own
    expected_cols = []
    for f in FUNCS:
        for j in case["aggs"].get(f, []):
            vals = case["vals"][j]["values"]
            want = [ref_agg(f, [vals[i] for i in g[1]]) for g in groups]
            tol = R.agg_tolerance(vals) if f in ("mean", "stdev") else 0.0
            expected_cols.append((f, j, want, tol))
            ctx.ev()
            over_arg = over[0] if (case["single"] and nk == 1) else over
            res = t.aggregate(over=over_arg, **{f"{f}_over": vspecs[j]})
            if check_keys(res, f"single-{f}"):
                return
            cols = [list(c) for c in res.cols()]
            if len(cols) != nk + 1:
                return ctx.fail(f"single-{f}/column-count", f"{len(cols)} columns for {nk} keys + 1 aggregate")
            got = cols[-1]
            if not _col_matches(got, want, [tol] * len(want)):
                empty = any(all(vals[i] is None for i in g[1]) for g in groups)
                return ctx.fail(f"single-{f}/values/{'with-all-none-group' if empty else 'plain'}",
                                f"{f} over {vals} grouped by {key_tuples}: got {got} want {want}")
            if len(res) != len(groups):
                return ctx.fail(f"single-{f}/len", f"len={len(res)} groups={len(groups)}")

    # (b) everything in one call, with recording apply functions
    calls = []

    def recorder(entry):
        # one function per apply entry (each stamps its own name on what it returns)
        def record(vals):
            calls.append(list(vals))
            return repr((entry, list(vals)))
        return record

    over_arg, kw = R.group_call_args(case, over, vspecs, recorder, per_name=True)
    ctx.ev()
    lists_before = [(nm_, arg_, list(arg_)) for nm_, arg_ in [("over", over_arg)] + list(kw.items()) if isinstance(arg_, list)]
    res = t.aggregate(over=over_arg, **kw)
    for nm_, arg_, was_ in lists_before:
        if len(arg_) != len(was_) or any(x is not y for x, y in zip(arg_, was_)):
            return ctx.fail("aggregate/argument-list-modified", f"the {nm_} list the caller passed was rewritten: {was_} -> {arg_}")
    if check_keys(res, "combined"):
        return
    if len(res) != len(groups):
        return ctx.fail("combined/len", f"len={len(res)} groups={len(groups)}")
    out_cols = [list(c) for c in res.cols()][nk:]
    want_cols = [(w, tol) for _, _, w, tol in expected_cols]
    want_calls = []
    for name, j in case["apply"]:
        vals = case["vals"][j]["values"]
        per_group = [[vals[i] for i in g[1]] for g in groups]
        want_calls += per_group
        want_cols.append(([repr((name, v)) for v in per_group], 0.0))
    if len(out_cols) != len(want_cols):
        return ctx.fail("combined/column-count", f"{len(out_cols)} aggregate columns, expected {len(want_cols)}")
    unused = list(range(len(out_cols)))
    for w, tol in want_cols:
        hit = next((u for u in unused if _col_matches(out_cols[u], w, [tol] * len(w))), None)
        if hit is None:
            is_apply = bool(w) and isinstance(w[0], str) and w[0].startswith("(")
            return ctx.fail(f"combined/{'apply' if is_apply else 'aggregate'}-column-wrong",
                            f"no output column equals expected {w}; outputs {out_cols}")
        unused.remove(hit)
    if sorted(map(repr, calls)) != sorted(map(repr, want_calls)):
        return ctx.fail("combined/apply-calls", f"apply received {calls}, expected once per group {want_calls}")

    # (c) whole-column reductions agree with the single-group aggregate
    for j, v in enumerate(case["vals"]):
        vals = v["values"]
        clean = [x for x in vals if x is not None]
        if not clean:
            continue
        vec = S.Vector(list(vals))
        one = R.build_table([("c", [0] * n), ("x", vals)])
        funcs = FUNCS if v["kind"] in R.NUMERIC else (["sum", "min", "max"] if v["kind"] == "cancel" else ["min", "max"])
        for f in funcs:
            if f == "count":
                continue
            ctx.ev()
            try:
                red = getattr(vec, f)()
            except Exception as e:  # noqa: BLE001
                return ctx.fail(f"reduction/{f}/raised", f"Vector({vals}).{f}(): {type(e).__name__}: {e}")
            agg = list(one.aggregate(over="c", **{f"{f}_over": "x"}).cols()[-1])[0]
            want = ref_agg(f, vals)
            tol = R.agg_tolerance(vals)
            if v["kind"] == "cancel" and f == "sum":
                # catastrophic cancellation: only the agreement clause is decided (any summation order is "textbook")
                ok = R.agg_close(red, agg, 1e-9)
                want = agg
            else:
                ok = (R.agg_close(red, agg, tol) and R.agg_close(red, want, tol)) if isinstance(want, float) else \
                    (same(red, agg) and same(red, want))
                if ok and f in ("sum", "mean", "min", "max") and not same(red, agg):
                    # the two computations are the same textbook function over the same values in the same order:
                    # "agree" is decided as equality (the tolerance above is for the reference only)
                    return ctx.fail(f"reduction/{f}/vector-and-single-group-aggregate-differ", f"Vector({vals}).{f}() = {red!r}, single-group aggregate {agg!r}")
            if not ok:
                return ctx.fail(f"reduction/{f}/disagrees", f"Vector({vals}).{f}() = {red!r}, single-group aggregate {agg!r}, reference {want!r}")
    # a custom function that keeps (returns) the very list it was handed: every group's cell still holds that group's values
    if case["apply"] and groups:
        j_ = case["apply"][0][1]
        ctx.ev()
        try:
            rk_ = t.aggregate(over=over_arg, apply={"kept": (vspecs[j_], lambda vals: vals)})
        except Exception as e:  # noqa: BLE001
            return ctx.fail(f"apply-keeps-its-argument/raised/{type(e).__name__}", str(e))
        cells_ = list(rk_.cols()[-1]) if len(rk_.cols()) else []
        vals_j = case["vals"][j_]["values"]
        want_ = [[vals_j[i] for i in g[1]] for g in groups]
        if len(cells_) == len(want_) and any(not isinstance(c_, S.Vector) and [freeze(x) for x in (c_ if isinstance(c_, (list, tuple)) else [c_])] != [freeze(x) for x in w_]
                                               for c_, w_ in zip(cells_, want_)):
            return ctx.fail("apply-keeps-its-argument/cells-overwritten", f"groups {want_}: the kept lists read {cells_}")
    if R.snapshot_table(t) != snap:
        return ctx.fail("aggregate/input-modified", "table changed during aggregate")
    # (d) the same call again after a key cell changed to a value hash() cannot tell from the old one
    te = R.twin_edit(case, t, over)
    if te is not None:
        over2, kt2 = te
        groups2 = ref_groups(kt2)
        ctx.ev()
        ctx.label("twin_edit")
        over_arg2 = over2[0] if (case["single"] and nk == 1) else over2
        res2 = t.aggregate(over=over_arg2, count_over=vspecs[0])
        cols2 = [list(c) for c in res2.cols()]
        want_k = [[g[0][c] for g in groups2] for c in range(nk)]
        vals0 = case["vals"][0]["values"]
        want_c = [ref_agg("count", [vals0[i] for i in g[1]]) for g in groups2]
        if [[freeze(x) for x in c] for c in cols2[:nk]] != [[freeze(x) for x in c] for c in want_k] or cols2[-1] != want_c:
            return ctx.fail("aggregate/stale-after-key-edit-to-hash-twin", f"keys now {kt2}: got {cols2}, want keys {want_k} counts {want_c}")
    if _interleaved(groups) and any(None in v["values"] for v in case["vals"]):
        ctx.nontrivial()


def digest(case):
    t, over, vspecs, _ = R.realise_group(case)
    over_arg, kw = R.group_call_args(case, over, vspecs)
    res = []
    for meth in ("aggregate", "window"):
        r = getattr(t, meth)(over=over_arg, **kw)
        res.append((meth, list(r.column_names()), R.frozen_rows(R.cells(r))))
    return codec.hhex(repr(res))


def hash_configs(ctx, tier, seed):
    n = 300 if tier == "quick" else 3000
    corpus = draw_corpus(R.group_case(tier), n, seed)
    texts = [codec.encode(c) for c in corpus]
    seeds = [0, 1, 2 ** 31, seed % (2 ** 32 - 1) + 2] + ([7, 12345, 4294967295] if tier == "thorough" else [])
    here = []
    for c in corpus:
        try:
            here.append(digest(c))
        except Exception as e:  # noqa: BLE001
            here.append(f"EXC:{type(e).__name__}")
    got = R.run_children("C12", texts, seeds, "group")
    failures = []
    for hs, ds in got.items():
        ctx.evals += len(ds)
        for i, (a, b) in enumerate(zip(here, ds)):
            if a != b:
                failures.append(("C12/hashseed/result-differs", codec.encode({"part": "group", "case": corpus[i]}),
                                 f"PYTHONHASHSEED={hs} gives a different aggregate/window result than PYTHONHASHSEED=0"))
                break
    ctx.examples += len(corpus)
    ctx.labels["hash_configs:cases"] += len(corpus)
    ctx.labels["hash_configs:seeds"] += len(seeds)
    return failures[:1]


def parts(tier):
    return [
        Part("group", run, strategy=lambda t: R.group_case(t), examples=(2400, 100000), shards=(8, 16),
             floors={"interleaved": 0.2, "none_key": 0.15}),
        Part("hash_configs", run, custom=hash_configs),
    ]
