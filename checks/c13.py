"""C13 — window functions keep every row in place and agree with aggregate."""
from harness.loader import load
from harness.runner import Part
from harness import relational as R
from harness.refmodel import ref_groups, ref_agg, freeze, same

S = load()

PROPERTY = "C13"
LEVEL_TEXT = 'Differential exploration: window() equals aggregate() joined back on the key, plus the reference model for single built-ins.'
LEVEL_NOTE = 'As C12.'
DESIGN_REF = "DESIGN.md §5 C13"
ENGINE = "relational"
TECHNIQUE = "property-based testing: window() vs aggregate() joined back on the partition key (differential), plus the reference partition model for the built-ins"
RULE = ("tables / partitions / aggregate arguments as for C12 (same generator: interleaved groups, None keys incl. a "
        "leading None, external key and value vectors, value vectors that share a name or are unnamed, apply functions). "
        "Non-trivial = interleaved groups whose aggregate values are not all equal; distinct = case encoding.")
ASSUMPTIONS = [
    "window is compared with aggregate called with the same arguments (as the statement defines it) and, for single built-ins, with the reference model",
    "floating-point outputs are compared with the C12 tolerance",
]


def _close_or_same(a, b, tol):
    """comparison with the reference model (another, equally valid, order of floating-point operations)"""
    if isinstance(a, float) or isinstance(b, float):
        return R.agg_close(a, b, tol)
    return same(a, b)


def run(case, ctx):
    t, over, vspecs, key_tuples = R.realise_group(case)
    n, nk = case["n"], len(case["keys"])
    snap = R.snapshot_table(t)
    groups = ref_groups(key_tuples)
    gi = {}
    for g, (_, idx) in enumerate(groups):
        for i in idx:
            gi[i] = g
    inter = any(g1[1][-1] > g2[1][0] for i, g1 in enumerate(groups) for g2 in groups[i + 1:])
    ctx.label("interleaved", int(inter))
    ctx.label("leading_none_key", int(bool(key_tuples) and None in key_tuples[0]))
    names = [v["name"] for v in case["vals"]]
    ctx.label("shared_value_name", int(len(set(names)) < len(names)))
    tol = max([R.agg_tolerance(v["values"]) for v in case["vals"]] + [1e-9])

    def recorder(vals, extra=None):
        # a custom function may look at its group more than once (max(v) - min(v), len(v), v[0]): two passes here; it may have
        # further, defaulted, parameters (nothing but the group is ever passed); and what it returns is one value for the group -
        # also when that value happens to be a list as long as the group
        first, second = list(vals), list(vals)
        return [repr((x, len(second), extra)) for x in first]

    over_arg, kw = R.group_call_args(case, over, vspecs, recorder)
    ctx.ev()
    w = t.window(over=over_arg, **kw)
    a = t.aggregate(over=over_arg, **kw)
    if len(w) != n and (n or len(w.cols())):
        return ctx.fail("window/row-count", f"len(window)={len(w)} for {n} input rows")
    wc = [list(c) for c in w.cols()]
    ac = [list(c) for c in a.cols()]
    if list(w.column_names()) != list(a.column_names()):
        return ctx.fail("window/column-names-differ-from-aggregate", f"{w.column_names()} vs {a.column_names()}")
    for c in range(nk):
        want = [k[c] for k in key_tuples]
        if [freeze(x) for x in wc[c]] != [freeze(x) for x in want]:
            return ctx.fail("window/key-column-changed", f"key column {c}: {wc[c]} vs input {want}")
    varies = False
    for c in range(nk, len(ac)):
        for i in range(n):
            ctx.ev()
            # window gives "the value aggregate would compute" for the group: the same value, not a close one
            if not same(wc[c][i], ac[c][gi[i]]):
                first = "leading-none-key" if (None in key_tuples[i] and gi[i] == 0) else "other"
                return ctx.fail(f"window/value-differs-from-aggregate/{first}",
                                f"column {c} row {i} (key {key_tuples[i]}): window {wc[c][i]!r}, aggregate row {gi[i]} has {ac[c][gi[i]]!r}; "
                                f"window col {wc[c]}, aggregate col {ac[c]}")
        if len({repr(x) for x in ac[c]}) > 1:
            varies = True
    # an aggregate over a partition column itself (count of a key skips its None like any other count)
    ctx.ev()
    try:
        wk, ak = t.window(over=over_arg, count_over=over[0]), t.aggregate(over=over_arg, count_over=over[0])
    except Exception as e:  # noqa: BLE001
        return ctx.fail(f"window/count-of-key/raised/{type(e).__name__}", str(e))
    wkc, akc = list(wk.cols()[-1]), list(ak.cols()[-1])
    if len(wkc) == n and any(not same(wkc[i], akc[gi[i]]) for i in range(n)):
        return ctx.fail("window/count-of-key/differs-from-aggregate", f"keys {key_tuples}: window {wkc}, aggregate {akc}")
    # no partition key at all (over=[]): if the library takes the whole table as one group, window repeats aggregate's single row
    if kw and n:
        ctx.ev()
        try:
            a0, w0 = t.aggregate(over=[], **kw), t.window(over=[], **kw)
        except Exception:  # noqa: BLE001  (not asserted: the statement speaks of partition keys)
            a0 = w0 = None
        if a0 is not None and isinstance(a0, S.Table) and isinstance(w0, S.Table) and len(a0) == 1:
            if len(w0) != n:
                return ctx.fail("window/no-key/row-count", f"over=[]: aggregate gives one row, window {len(w0)} rows for {n} input rows")
            for ca, cw in zip(a0.cols(), w0.cols()):
                if any(not same(x, list(ca)[0]) for x in cw):
                    return ctx.fail("window/no-key/value-differs-from-aggregate", f"over=[]: aggregate {list(ca)}, window {list(cw)}")
    # the same call with positional arguments (in the order aggregate declares them): window still is "aggregate joined back"
    import inspect
    order = [p_ for p_ in inspect.signature(S.Table.aggregate).parameters if p_ not in ("self",)]
    if order and order[0] == "over" and all(k_ in order for k_ in kw) and kw:
        last = max(order.index(k_) for k_ in kw)
        pos = [over_arg] + [kw.get(p_) for p_ in order[1:last + 1]]
        ctx.ev()
        try:
            wp, ap = t.window(*pos), t.aggregate(*pos)
        except Exception as e:  # noqa: BLE001
            return ctx.fail(f"window/positional-call-raised/{type(e).__name__}", f"{order[:last + 1]}: {e}")
        if list(wp.column_names()) != list(w.column_names()) or list(ap.column_names()) != list(a.column_names()):
            return ctx.fail("window/positional-arguments-mean-something-else",
                            f"keyword call gives window {w.column_names()} / aggregate {a.column_names()}, the positional call ({order[:last + 1]}) "
                            f"window {wp.column_names()} / aggregate {ap.column_names()}")
        if [[freeze(x) for x in c] for c in wp.cols()] != [[freeze(x) for x in c] for c in w.cols()]:
            return ctx.fail("window/positional-call-values-differ", f"{order[:last + 1]}")
    # single built-ins against the reference model (does not rely on aggregate being right)
    for f, idx in case["aggs"].items():
        for j in idx:
            vals = case["vals"][j]["values"]
            ctx.ev()
            over1 = over[0] if (case["single"] and nk == 1) else over
            r = t.window(over=over1, **{f"{f}_over": vspecs[j]})
            cols = [list(c) for c in r.cols()]
            if len(cols) != nk + 1:
                return ctx.fail(f"window-single-{f}/column-count", f"{len(cols)}")
            per_group = [ref_agg(f, [vals[i] for i in g[1]]) for g in groups]
            want = [per_group[gi[i]] for i in range(n)]
            tl = R.agg_tolerance(vals)
            if len(cols[-1]) != n or not all(_close_or_same(x, y, tl) for x, y in zip(cols[-1], want)):
                return ctx.fail(f"window-single-{f}/values", f"{f} over {vals} by {key_tuples}: got {cols[-1]} want {want}")
    if R.snapshot_table(t) != snap:
        return ctx.fail("window/input-modified", "table changed during window")
    # the same window again after a key cell changed to a value hash() cannot tell from the old one
    te = R.twin_edit(case, t, over)
    if te is not None:
        over2, kt2 = te
        groups2 = ref_groups(kt2)
        g2 = {}
        for g, (_, idx) in enumerate(groups2):
            for i in idx:
                g2[i] = g
        ctx.ev()
        ctx.label("twin_edit")
        over_arg2 = over2[0] if (case["single"] and nk == 1) else over2
        w2 = t.window(over=over_arg2, count_over=vspecs[0])
        vals0 = case["vals"][0]["values"]
        per = [ref_agg("count", [vals0[i] for i in g[1]]) for g in groups2]
        got2 = list(w2.cols()[-1])
        if got2 != [per[g2[i]] for i in range(n)]:
            return ctx.fail("window/stale-after-key-edit-to-hash-twin", f"keys now {kt2}: got {got2}, want {[per[g2[i]] for i in range(n)]}")
        for c in range(nk):
            if [freeze(x) for x in w2.cols()[c]] != [freeze(k[c]) for k in kt2]:
                return ctx.fail("window/key-column-changed", f"after key edit: key column {c} {list(w2.cols()[c])}")
    if inter and varies:
        ctx.nontrivial()


def parts(tier):
    return [Part("window", run, strategy=lambda t: R.group_case(t), examples=(2400, 100000), shards=(8, 16),
                 floors={"interleaved": 0.2, "leading_none_key": 0.1, "shared_value_name": 0.1})]
