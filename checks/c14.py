"""C14 — sorting is a stable permutation with direction-independent None placement."""
import itertools
from datetime import date

from hypothesis import strategies as st

from harness.loader import load
from harness.runner import Part
from harness import build as B
from harness import relational as R
from harness.refmodel import freeze

S = load()

PROPERTY = "C14"
LEVEL_TEXT = 'Validity-predicate exploration (permutation, cells kept together, lexicographic order per direction, stability, None placement, idempotence) + bounded-exhaustive core over {None,0,1} keys of length <=4 (thorough 5).'
LEVEL_NOTE = 'Keys of one column are mutually comparable in Python.'
DESIGN_REF = "DESIGN.md §5 C14"
ENGINE = "relational"
TECHNIQUE = "property-based testing + bounded-exhaustive enumeration; oracle = validity predicate (permutation, cells kept together, lexicographic order per key direction, stability, None placement, idempotence, input unchanged)"
RULE = ("random: tables of 0..8 (thorough 0..16) rows with a hidden position column, 1..3 sort keys (by name / own / external "
        "vector) from alphabets of size 1..3 with None (int, float, str, date, bool and the tie class 1 / 1.0 / True), per-key "
        "directions given as bool, list or tuple, na_last both ways; Vector.sort_by on the same columns. exhaustive: all key "
        "columns over {None,0,1} up to length 4 (thorough 5) x 1..2 keys x directions x na_last. Non-trivial = >=1 full tie, "
        ">=1 None key and >=1 descending key; distinct = case encoding.")
ASSUMPTIONS = [
    "sort keys of one column are mutually comparable in Python (one kind per key column, or the numeric tie class)",
    "ties are decided with Python == on the key values (1 == 1.0 == True)",
]

ALPHA = {
    "int": [0, 1, 2, -3], "float": [0.5, -1.5, 2.0, 0.0, float("inf"), float("-inf"), -0.0], "str": ["a", "b", "", "B"],
    "date": [date(2020, 1, 1), date(2020, 1, 2), date(1999, 12, 31)], "bool": [True, False],
    "tie": [1, 1.0, True, 0, 0.0, False, 2],
    "bytes": [b"a", b"b", b"", b"B"], "tuple": [(1, "a"), (1, "b"), (0, "z"), (1,)],
}


@st.composite
def key_column(draw, n):
    kind = draw(st.sampled_from(list(ALPHA)))
    size = draw(st.integers(1, min(3, len(ALPHA[kind]))))
    alpha = draw(st.lists(st.sampled_from(ALPHA[kind]), min_size=size, max_size=size, unique_by=lambda v: (type(v), v)))
    if draw(st.sampled_from([True, True, False])):
        alpha = alpha + [None]
    return draw(st.lists(st.sampled_from(alpha), min_size=n, max_size=n))


@st.composite
def sort_case(draw, tier="quick"):
    mr = 8 if tier == "quick" else 16
    n = draw(st.one_of(st.integers(0, mr), st.integers(2, 6)))
    nk = draw(st.sampled_from([1, 1, 2, 2, 3]))
    keys = [{"values": draw(key_column(n)), "form": draw(st.sampled_from(["name", "own", "ext"])),
             "rev": draw(st.booleans())} for _ in range(nk)]
    if nk >= 2 and draw(st.integers(0, 4)) == 0:
        # the same column named twice among the keys (its second mention, in whatever direction, can never break a tie the
        # first left): every other key keeps its own direction
        j = draw(st.integers(1, nk - 1))
        keys[j] = dict(keys[0], rev=draw(st.booleans()), dup_of=0)
    pay = draw(R.payload(n, 2))
    rev_form = draw(st.sampled_from(["bool", "list", "tuple"]))
    return {"n": n, "keys": keys, "payload": pay, "rev_form": rev_form, "na_last": draw(st.booleans()),
            "by_form": draw(st.sampled_from(["list", "tuple", "bare"])), "view_rename": draw(st.integers(0, 3)) == 0}


def _build(case):
    n = case["n"]
    cols = [("pos", list(range(n)))]
    kpos = []
    for i, k in enumerate(case["keys"]):
        if k.get("dup_of") is not None and k["form"] != "ext":
            kpos.append(kpos[k["dup_of"]])           # the very same stored column again
        elif k["form"] != "ext" or (i == 0 and n == 0 and False):
            kpos.append(len(cols))
            cols.append((f"sk{i}", k["values"]))
        else:
            kpos.append(None)
    cols += [(nm if nm not in ("pos",) else "p2", vals) for nm, vals in case["payload"]]
    return cols, kpos


def _by(case, t, cols, kpos, ext_values=None):
    by = []
    for i, k in enumerate(case["keys"]):
        if k["form"] == "ext":
            by.append(S.Vector(list(ext_values[i] if ext_values else k["values"])))
        elif k["form"] == "own":
            by.append(t.cols()[kpos[i]])
        else:
            by.append(cols[kpos[i]][0])
    revs = [k["rev"] for k in case["keys"]]
    if case["rev_form"] == "bool" and len(set(revs)) == 1:
        rev = revs[0]
    elif case["rev_form"] == "tuple":
        rev = tuple(revs)
    else:
        rev = list(revs)
    if len(by) == 1 and case["by_form"] == "bare":
        by = by[0]
    elif case["by_form"] == "tuple":
        by = tuple(by)
    return by, rev


def _cmp_key(a, b, rev, na_last):
    """-1 / 0 / 1 for one key under the contract (None placement independent of direction)"""
    if a is None or b is None:
        if a is None and b is None:
            return 0
        a_first = (a is None) != na_last   # None first iff not na_last
        return -1 if a_first else 1
    if a == b:
        return 0
    lt = a < b
    if rev:
        lt = not lt
    return -1 if lt else 1


def check_order(ctx, where, keyrows, positions, revs, na_last):
    """keyrows[i] = key tuple of output row i; positions[i] = original position"""
    for i in range(len(keyrows) - 1):
        a, b = keyrows[i], keyrows[i + 1]
        total = 0
        which = None
        for c, (x, y) in enumerate(zip(a, b)):
            r = _cmp_key(x, y, revs[c], na_last)
            if r != 0:
                total, which = r, c
                break
        if total > 0:
            x, y = a[which], b[which]
            if x is None or y is None:
                d = "desc" if revs[which] else "asc"
                return ctx.fail(f"{where}/none-placement/{d}/na_last-{na_last}",
                                f"rows {i},{i + 1}: key {which} values {x!r},{y!r} rev={revs[which]} na_last={na_last}; keys {keyrows}")
            return ctx.fail(f"{where}/not-ordered/{'desc' if revs[which] else 'asc'}/key{'-first' if which == 0 else '-later'}",
                            f"rows {i},{i + 1}: key {which} values {x!r},{y!r} rev={revs[which]}; keys {keyrows}")
        if total == 0 and positions is not None and positions[i] > positions[i + 1]:
            return ctx.fail(f"{where}/unstable/{'desc' if any(revs) else 'asc'}",
                            f"rows {i},{i + 1} tie on all keys {a} but original positions {positions[i]} > {positions[i + 1]}")
    return False


def run_table(case, ctx):
    n = case["n"]
    cols, kpos = _build(case)
    t = R.build_table(cols)
    named = [p for p in kpos if p is not None]
    all_names = [c[0] for c in cols]
    if case.get("view_rename") and len(named) >= 1 and len(cols) >= 3 and all(isinstance(x, str) for x in all_names) \
            and len(set(all_names)) == len(all_names):
        # move the names around through live column views (the table is not told): sort keys given by name must
        # denote the column that carries the name now
        perm = list(range(1, len(cols))) + [0]
        old_names = [c[0] for c in cols]
        views = list(t.cols())
        for j, vw in enumerate(views):
            vw.name = f"tmp{j}"
        for j, vw in enumerate(views):
            vw.name = old_names[perm[j]]
        cols = [(old_names[perm[j]], cols[j][1]) for j in range(len(cols))]
        # the key columns keep their positions; their names changed
        case = dict(case, keys=[dict(k) for k in case["keys"]])
    snap = R.snapshot_table(t)
    by, rev = _by(case, t, cols, kpos)
    revs = [k["rev"] for k in case["keys"]]
    na_last = case["na_last"]
    keyvals = [k["values"] for k in case["keys"]]
    in_rows = R.frozen_rows(R.cells(t))
    ctx.ev()
    by_before = list(by) if isinstance(by, list) else None
    rev_before = list(rev) if isinstance(rev, list) else None
    out = t.sort_by(by, reverse=rev, na_last=na_last)
    if R.snapshot_table(t) != snap:
        return ctx.fail("table/input-modified", "sort_by changed its input")
    if (by_before is not None and (len(by) != len(by_before) or any(x is not y for x, y in zip(by, by_before)))) or \
            (rev_before is not None and list(rev) != rev_before):
        return ctx.fail("table/argument-list-modified", f"the by / reverse list the caller passed was rewritten: {by_before} -> {by}")
    if by_before is not None and all(isinstance(x, str) for x in by_before):
        # the same list of names used again on the sorted table: names are looked up in the table they are given to
        ctx.ev()
        same_again = out.sort_by(by, reverse=rev, na_last=na_last)
        if R.frozen_rows(R.cells(same_again)) != R.frozen_rows(R.cells(out)):
            return ctx.fail("table/not-idempotent/same-argument-objects", f"sort_by(by) twice with the same list object {by_before}")
    if list(out.column_names()) != [c[0] for c in cols]:
        return ctx.fail("table/names", f"{out.column_names()} vs {[c[0] for c in cols]}")
    out_rows = R.cells(out)
    if len(out) != n or len(out_rows) != n:
        return ctx.fail("table/row-count", f"len {len(out)} rows {len(out_rows)} input {n}")
    positions = [r[0] for r in out_rows]
    if sorted(positions) != list(range(n)):
        return ctx.fail("table/not-a-permutation", f"positions {positions}")
    fo = R.frozen_rows(out_rows)
    for i, p in enumerate(positions):
        if fo[i] != in_rows[p]:
            return ctx.fail("table/cells-not-kept-together", f"output row {i} {fo[i]} != input row {p} {in_rows[p]}")
    keyrows = [tuple(kv[p] for kv in keyvals) for p in positions]
    if check_order(ctx, "table", keyrows, positions, revs, na_last):
        return
    if n:
        for ci, (a, b) in enumerate(zip(t.cols(), out.cols())):
            if a.schema() is not None and (b.schema() is None or a.schema().kind is not b.schema().kind):
                return ctx.fail("table/kind-changed", f"column {ci}: {a.schema()} -> {b.schema()}")
    # idempotence: sorting the sorted table (external keys permuted alongside) changes nothing
    ctx.ev()
    ext2 = [[kv[p] for p in positions] for kv in keyvals]
    by2, rev2 = _by(case, out, cols, kpos, ext2)
    again = out.sort_by(by2, reverse=rev2, na_last=na_last)
    if R.frozen_rows(R.cells(again)) != fo:
        return ctx.fail("table/not-idempotent", f"sort(sort(t)) differs: {R.cells(again)} vs {out_rows}")
    full_tie = any(keyrows[i] == keyrows[i + 1] for i in range(n - 1))
    has_none = any(None in k for k in keyrows)
    ctx.label("full_tie", int(full_tie))
    ctx.label("none_key", int(has_none))
    ctx.label("desc_key", int(any(revs)))
    ctx.label("mixed_directions", int(len(set(revs)) > 1))
    ctx.label("none_in_nonlast_key", int(len(keyvals) > 1 and any(None in kv for kv in keyvals[:-1])))
    if full_tie and has_none and any(revs):
        ctx.nontrivial()


def check_vector(ctx, vals, rev, na_last, name="nm"):
    v = B.vector(vals, name=name)
    before = [freeze(x) for x in v]
    ctx.ev()
    out = v.sort_by(reverse=rev, na_last=na_last)
    got = list(out)
    if [freeze(x) for x in v] != before:
        return ctx.fail("vector/input-modified", "Vector.sort_by changed its input")
    if sorted(map(repr, map(freeze, got))) != sorted(map(repr, before)):
        return ctx.fail("vector/not-a-permutation", f"{vals} -> {got}")
    if check_order(ctx, "vector", [(x,) for x in got], None, [rev], na_last):
        return True
    # stability: elements that compare equal keep their input order (observable through their types)
    for x in {repr(freeze(e)): e for e in vals if e is not None}.values():
        want = [freeze(e) for e in vals if e is not None and e == x]
        have = [freeze(e) for e in got if e is not None and e == x]
        if want != have:
            return ctx.fail(f"vector/unstable/{'desc' if rev else 'asc'}", f"{vals} -> {got}: equal elements {want} came out as {have}")
    if out.name != name:
        return ctx.fail("vector/name-lost", f"{out.name!r}")
    if vals and v.schema() is not None and (out.schema() is None or out.schema().kind is not v.schema().kind):
        return ctx.fail("vector/kind-changed", f"{v.schema()} -> {out.schema()}")
    ctx.ev()
    again = list(out.sort_by(reverse=rev, na_last=na_last))
    if [freeze(x) for x in again] != [freeze(x) for x in got]:
        return ctx.fail("vector/not-idempotent", f"{got} -> {again}")
    return False


def run_vector(case, ctx):
    vals = case["values"]
    if check_vector(ctx, vals, case["rev"], case["na_last"]):
        return
    has_none = None in vals
    ties = len({repr(x) for x in vals}) < len(vals)
    ctx.label("none", int(has_none))
    if has_none and ties and case["rev"]:
        ctx.nontrivial()


@st.composite
def vector_case(draw, tier="quick"):
    n = draw(st.integers(0, 8 if tier == "quick" else 16))
    return {"values": draw(key_column(n)), "rev": draw(st.booleans()), "na_last": draw(st.booleans())}


# ---------------------------------------------------------------- exhaustive core
def _enum_len(tier):
    return 4 if tier == "quick" else 5


def enum_cases(tier):
    L = _enum_len(tier)
    for n in range(L + 1):
        for first in itertools.product((None, 0, 1), repeat=n):
            yield {"n": n, "k0": list(first)}


def run_enum(case, ctx):
    n, k0 = case["n"], case["k0"]
    pos = list(range(n))
    for rev0, na_last in itertools.product((False, True), repeat=2):
        if check_vector(ctx, k0, rev0, na_last):
            return
        t = R.build_table([("pos", pos), ("a", k0)])
        out = t.sort_by("a", reverse=rev0, na_last=na_last)
        ps = list(out.cols()[0])
        ctx.ev()
        if sorted(ps) != pos:
            return ctx.fail("table/not-a-permutation", f"{k0}: {ps}")
        if check_order(ctx, "table", [(k0[p],) for p in ps], ps, [rev0], na_last):
            return
        if [freeze(x) for x in out.cols()[1]] != [freeze(k0[p]) for p in ps]:
            return ctx.fail("table/cells-not-kept-together", f"{k0}")
    for k1 in itertools.product((None, 0, 1), repeat=n):
        t = R.build_table([("pos", pos), ("a", k0), ("b", list(k1))])
        for rev0, rev1, na_last in itertools.product((False, True), repeat=3):
            ctx.ev()
            out = t.sort_by(["a", "b"], reverse=[rev0, rev1], na_last=na_last)
            ps = list(out.cols()[0])
            if sorted(ps) != pos:
                return ctx.fail("table/not-a-permutation", f"{k0},{k1}: {ps}")
            if check_order(ctx, "table", [(k0[p], k1[p]) for p in ps], ps, [rev0, rev1], na_last):
                return
        if None in k0 and len(set(zip(k0, k1))) < n:
            ctx.nontrivial(repr(k1))


def parts(tier):
    L = _enum_len(tier)
    return [
        Part("table_sort", run_table, strategy=lambda t: sort_case(t), examples=(2400, 100000), shards=(6, 16),
             floors={"full_tie": 0.2, "none_key": 0.3, "mixed_directions": 0.1, "none_in_nonlast_key": 0.1}),
        Part("vector_sort", run_vector, strategy=lambda t: vector_case(t), examples=(1500, 50000), shards=(3, 16)),
        Part("enum_none01", run_enum, enumerate=enum_cases, shards=(8, 16), exhaustive=True,
             space=f"all key columns over {{None,0,1}} of length 0..{L}: one key (table and vector) x direction x na_last, and all "
                   f"pairs of two key columns x 4 direction pairs x na_last"),
    ]
