"""C15 — alias tracking is exact: no leaked write, no spurious refusal."""
import copy as _copy
import gc

from hypothesis import strategies as st

from harness.loader import load
from harness.runner import Part
from harness import world as W

S = load()

PROPERTY = "C15"
LEVEL_TEXT = 'Exploration of creation / sharing / writing / replacement / dropping / gc histories against a shadow model of the true sharing relation, with an end-of-program sweep of 336 fresh-vector writes to make id() reuse observable (replay repeats 30 times); a directed part keeping 37 kinds of operation result alive together before writing each, and a part that moves vectors off caller tuples (writes, promotions, cell writes, column replacement) before batches of fresh vectors of the same lengths are written.'
LEVEL_NOTE = 'id() reuse depends on the allocator: the sweep makes a stale registration fire with high probability but cannot force it.'
DESIGN_REF = "DESIGN.md §5 C15"
ENGINE = "world"
REPLAY_REPEATS = 30
TECHNIQUE = "model-based property testing over histories of creation / sharing / writing / column replacement / promotion / dropping / garbage collection with allocation churn; oracle = shadow model of the true storage-sharing relation; end-of-program amplification sweep of fresh-vector writes to make id() reuse observable"
RULE = ("world programs over Vector(tuple) on a few caller tuples (the only real sharing), Vector(list), copies, slices, results, tables "
        "built by every constructor (>>, Vector([...]), dict, selections, attribute assignment), live column views, writes with and "
        "without promotion, handle drops, drops into reference cycles, gc, allocation churn; each program ends with a sweep that "
        "creates and writes 48 fresh vectors of each length 0..6 while the whole pool is alive. Non-trivial = the program has a "
        "shared pair, a write the model says is private after a table constructor or column replacement ran, and a drop; "
        "distinct = program encoding. results: pairs of sources (lengths weighted to 1) x 2..4 of 37 result-producing operations (copy protocol included), all results alive, each written. moved: 1..6 vectors (over a caller tuple or private) x 8 storage-moving operations, then 8..40 fresh vectors per length in play.")
ASSUMPTIONS = [
    "two vectors share storage only when built over the same caller-supplied tuple object and until one of them is written; every other vector (fresh, copy, slice, result, table column, empty) has private storage",
    "an object dropped into an uncollected reference cycle still counts as live",
    "whether a freed id() is reused depends on the allocator: the sweep makes a stale registration fire with high probability, it cannot force it; replay runs the saved program 30 times",
]


class Hooks(W.Hooks):
    def __init__(self, ctx):
        self.ctx = ctx
        self.shared_pairs = 0
        self.private_writes_after_table = 0
        self.table_ops = 0
        self.drops = 0
        self.failed = False

    def pre(self, world, step):
        return {e.id: W.snap(e.obj) for e in world.entries}

    def _sharers(self, world, a, token):
        if token is None:
            return []
        out = [e for e in world.live("vec") if e.obj is not a.obj and e.token == token]
        out += [c for c in world.cycles if c[2] == token and c[1]() is not None]
        return out

    def post(self, world, step, si, pre):
        ctx = self.ctx
        if si.skipped or self.failed:
            return
        ctx.ev()
        if si.op == "vec_tuple" and si.results:
            tok = si.results[0].token
            if len([e for e in world.live("vec") if e.token == tok]) >= 2:
                self.shared_pairs += 1
        if si.op in ("table_dict", "table_vecs", "vec_of_vecs", "rshift", "attr_assign", "select", "slice", "mask", "join", "sort"):
            self.table_ops += 1
        if si.op in ("drop", "drop_cycle"):
            self.drops += 1
        if si.op == "attr_assign" and si.info.get("ok") and "__" in str(si.info.get("accessor")):
            self.indexed_assigns = getattr(self, "indexed_assigns", 0) + 1
        if si.kind == "write" and si.info.get("ok") and si.operands and si.operands[0].origin == "tuple":
            b, a_ = si.info.get("before"), W.snap(si.operands[0].obj)
            if b and b[2] and a_[2] and b[2][0] != a_[2][0]:
                self.promoted_tuple_vectors = getattr(self, "promoted_tuple_vectors", 0) + 1
        if si.op == "drop_tuple" and getattr(self, "promoted_tuple_vectors", 0):
            ctx.label("caller_tuple_dropped_after_promotion")
        if si.kind != "write" or si.op == "attr_assign":
            if isinstance(si.exc, S.AliasError):
                self.failed = ctx.fail(f"aliaserror-from-non-write/{si.op}", f"step {step}: {si.exc}")
            return
        tgt = world.by_id(si.info["target"])
        if tgt is None:
            return
        if tgt.typ == "vec":
            sharers = self._sharers(world, tgt, si.info.get("token_before"))
        else:
            sharers = []     # table columns always have private storage
        refused = isinstance(si.exc, S.AliasError)
        # nobody else may observe the write
        allowed = set(si.may_change) | {e.id for e in world.entries if e.obj is tgt.obj}
        for e in world.entries:
            if e.id in pre and e.id not in allowed and W.snap(e.obj) != pre[e.id] and (refused or e.token is not None):
                self.failed = ctx.fail(f"write-observed-by-another-vector/{si.op}", f"step {step}: entry {e.id} changed {pre[e.id]} -> {W.snap(e.obj)}")
                return
        if refused:
            ctx.label("refusals")
            if W.snap(tgt.obj) != pre.get(tgt.id):
                self.failed = ctx.fail("refused-write-changed-the-target", f"step {step}")
                return
            if not sharers:
                origin = tgt.origin if tgt.typ == "vec" else "table"
                empty = "empty" if len(tgt.obj) == 0 else "nonempty"
                ctx.fail(f"spurious-refusal/{origin}/{empty}", f"step {step}: AliasError although the model knows no live sharer "
                         f"(target origin {tgt.origin}, len {len(tgt.obj)})")
                return      # (a known / already reported tag: keep exploring behind it)
            ctx.label("legit_refusals")
        else:
            if si.info.get("ok") and not sharers:
                ctx.label("private_writes")
                if self.table_ops:
                    self.private_writes_after_table += 1

    def finish(self, world):
        if self.failed:
            return
        ctx = self.ctx
        # amplification: with the whole pool alive, fresh vectors of every small length must be writable
        keep = []
        for L in range(0, 7):
            batch = [S.Vector(list(range(L))) if L else S.Vector([]) for _ in range(48)]
            keep.append(batch)
            for v in batch:
                ctx.ev()
                try:
                    if L:
                        v[0] = 99
                    else:
                        v[:] = []
                except S.AliasError as e:
                    kinds = sorted({e_.origin for e_ in world.entries})
                    ctx.fail(f"spurious-refusal/fresh-vector-in-sweep/{'empty' if L == 0 else 'nonempty'}",
                             f"a fresh Vector of length {L} refused its first write: {e}; live pool origins {kinds}")
                    break   # (known / already reported: go on with the next length)
        del keep


def run(case, ctx):
    h = Hooks(ctx)
    W.run_program(case, h)
    if h.shared_pairs and h.private_writes_after_table and h.drops:
        ctx.nontrivial()
    ctx.label("has_shared_pair", int(h.shared_pairs > 0))
    ctx.label("has_table_constructor", int(h.table_ops > 0))
    ctx.label("column_replaced_through_indexed_accessor", int(getattr(h, "indexed_assigns", 0) > 0))

# ---------------------------------------------------------------- directed: operation results are private
RESULT_OPS = {
    "copy": lambda v: v.copy(), "slice_full": lambda v: v[:], "slice_head": lambda v: v[0:1], "slice_rev": lambda v: v[::-1],
    "mask_all": lambda v: v[[True] * len(v)], "index0": lambda v: v[[0]], "isna": lambda v: v.isna(),
    "eq_self": lambda v: v == v, "ne_self": lambda v: v != v, "lt_self": lambda v: v < v, "neg": lambda v: -v, "pos": lambda v: +v,
    "abs": lambda v: abs(v), "add0": lambda v: v + 0, "radd0": lambda v: 0 + v, "mul1": lambda v: v * 1, "add_self": lambda v: v + v,
    "fillna": lambda v: v.fillna(v[0]), "dropna": lambda v: v.dropna(), "unique": lambda v: v.unique(), "sort": lambda v: v.sort_by(),
    "sort_desc": lambda v: v.sort_by(reverse=True), "to_object": lambda v: v.to_object(), "cast_str": lambda v: v.cast(str),
    "lshift_nothing": lambda v: v << [], "lshift_own": lambda v: v << [v[0]], "invert": lambda v: ~v, "and_self": lambda v: v & v,
    "upper": lambda v: v.upper(), "year": lambda v: v.year, "bit_length": lambda v: v.bit_length(), "is_integer": lambda v: v.is_integer(),
    "column_of_table": lambda v: S.Table({"c": list(v)}).c, "column_after_select": lambda v: S.Table({"c": list(v), "d": list(v)})["d", "c"].cols()[0],
    "row_slice_column": lambda v: S.Table({"c": list(v)})[0:len(v)].c, "new": lambda v: S.Vector.new(v[0], len(v)),
    # Python's copy protocol
    "copy_copy": lambda v: _copy.copy(v), "deepcopy": lambda v: _copy.deepcopy(v),
}
RESULT_EL = {"int": st.integers(-3, 9), "float": st.sampled_from([0.5, -1.5, 2.0, 0.0]), "str": st.sampled_from(["a", "b", ""]),
             "bool": st.booleans(), "date": st.sampled_from([W._date(2020, 1, 1), W._date(2021, 5, 6)])}


@st.composite
def results_case(draw, tier="quick"):
    kind = draw(st.sampled_from(list(RESULT_EL)))
    n = draw(st.sampled_from([1, 1, 1, 2, 2, 3, 0, 5]))
    def column():
        xs = draw(st.lists(RESULT_EL[kind], min_size=n, max_size=n))
        if n and draw(st.integers(0, 3)) == 0:
            xs[draw(st.integers(0, n - 1))] = None
        return xs
    ops = draw(st.lists(st.sampled_from(sorted(RESULT_OPS)), min_size=2, max_size=4))
    return {"kind": kind, "a": column(), "b": column(), "ops": ops, "same_source": draw(st.booleans())}


def run_results(case, ctx):
    """several operation results (of the same or of two different sources) are alive at once; each is then written"""
    a = S.Vector(list(case["a"])) if case["a"] else S.Vector([], dtype={"int": int, "float": float, "str": str, "bool": bool, "date": W._date}[case["kind"]])
    b = a if case["same_source"] else (S.Vector(list(case["b"])) if case["b"] else S.Vector([]))
    held = []
    for i, name in enumerate(case["ops"]):
        for src in ((a, b) if i % 2 == 0 else (b, a)):
            try:
                r = RESULT_OPS[name](src)
            except S.AliasError as e:
                return ctx.fail(f"results/aliaserror-from-non-write/{name}", f"{name} on {list(src)}: {e}")
            except Exception:  # noqa: BLE001
                continue              # the operation is not defined for this kind / length
            if isinstance(r, S.Vector) and not isinstance(r, S.Table):
                held.append((name, r))
    snaps = [W.snap(r) for _, r in held]
    sa, sb = W.snap(a), W.snap(b)
    for i, (name, r) in enumerate(held):
        if any(r is q for _, q in held[:i]) or r is a or r is b:
            continue
        ctx.ev()
        try:
            if len(r):
                r[0] = r[len(r) - 1]
            else:
                r[:] = []
        except S.AliasError as e:
            others = sorted({nm for j, (nm, _) in enumerate(held) if j != i})
            return ctx.fail(f"results/spurious-refusal/{name}/len{min(len(r), 2)}",
                            f"the result of {name} on a {case['kind']} vector of length {len(case['a'])} refused its first write while the results of {others} were alive: {e}")
        except Exception:  # noqa: BLE001
            continue                  # (write-back typing is C03's matter)
        for j, (nm, q) in enumerate(held):
            if j != i and q is not r and W.snap(q) != snaps[j]:
                return ctx.fail(f"results/write-observed-by-another-result/{name}->{nm}", f"{snaps[j]} -> {W.snap(q)}")
        snaps[i] = W.snap(r)
        if (W.snap(a), W.snap(b)) != (sa, sb):
            return ctx.fail(f"results/write-observed-by-the-operand/{name}", f"{sa} -> {W.snap(a)}")
    # the duplicate outlives its source: once the source is gone nothing shares the duplicate's storage
    for how in ("copy", "copy_copy", "deepcopy", "slice_full"):
        if not case["a"]:
            break
        src = S.Vector(list(case["a"]))
        try:
            dup = RESULT_OPS[how](src)
        except Exception:  # noqa: BLE001
            continue
        del src                    # (reference counting frees it at once; no collector pass needed)
        ctx.ev()
        try:
            dup[0] = dup[len(dup) - 1]
        except S.AliasError as e:
            return ctx.fail(f"results/spurious-refusal/{how}-after-source-dropped", f"{how} of a {case['kind']} vector {case['a']}, source dropped and collected: {e}")
        except Exception:  # noqa: BLE001
            pass
    ctx.label("results_held", len(held))
    if len(held) >= 3:
        ctx.nontrivial()

# ---------------------------------------------------------------- directed: storage a vector moved away from is forgotten
MOVES = ["same_kind", "promote", "none", "slice_write", "mask_write", "table_cell", "column_replace", "lshift_keep"]


@st.composite
def moved_case(draw, tier="quick"):
    k = draw(st.integers(1, 6))
    vecs = []
    for _ in range(k):
        kind = draw(st.sampled_from(["int", "bool", "float", "date", "str"]))
        n = draw(st.integers(1, 6))
        vecs.append({"kind": kind, "n": n, "move": draw(st.sampled_from(MOVES)), "nullable": draw(st.integers(0, 3)) == 0,
                     "over_tuple": draw(st.booleans())})
    return {"vecs": vecs, "fresh": draw(st.integers(8, 40)), "gc": draw(st.booleans())}


def run_moved(case, ctx):
    from datetime import datetime as _dtm
    base = {"int": lambda i: i, "bool": lambda i: i % 2 == 0, "float": lambda i: i + 0.5, "date": lambda i: W._date(2020, 1, 1 + i), "str": lambda i: "s%d" % i}
    wider = {"int": 2.5, "bool": 7, "float": 1j, "date": _dtm(2021, 2, 3, 4, 5), "str": "zz"}
    keep = []
    # two vectors over one caller tuple: a write is refused while both live (and the refusal must not keep the partner alive)
    tp0 = tuple(base[case["vecs"][0]["kind"]](i) for i in range(case["vecs"][0]["n"]))
    va_, vb_ = S.Vector(tp0), S.Vector(tp0)
    ctx.ev()
    try:
        va_[0] = va_[0]
        return ctx.fail("moved/shared-write-not-refused", f"two vectors over {tp0}: the write went through")
    except S.AliasError:
        pass
    except Exception:  # noqa: BLE001
        pass
    del vb_, tp0
    if case["gc"]:
        gc.collect()
    ctx.ev()
    try:
        va_[0] = va_[0]
    except S.AliasError as e:
        return ctx.fail("moved/spurious-refusal/after-a-refused-attempt", f"the partner was dropped{' and collected' if case['gc'] else ''}, the survivor is still refused: {e}")
    except Exception:  # noqa: BLE001
        pass
    for spec in case["vecs"]:
        kind, n, move = spec["kind"], spec["n"], spec["move"]
        vals = [base[kind](i) for i in range(n)]
        if spec["nullable"]:
            vals[-1] = None
        if move in ("table_cell", "column_replace"):
            t = S.Table({"c": list(vals), "d": list(range(n))})
            try:
                if move == "table_cell":
                    t[0, "c"] = wider[kind]
                else:
                    t.c = [wider[kind]] * n
            except S.AliasError as e:
                return ctx.fail(f"moved/spurious-refusal-on-the-move/{move}", str(e))
            except Exception:  # noqa: BLE001  (a value the column does not take: the table simply stays as it is)
                pass
            keep.append(t)
            continue
        # over a caller-owned tuple that the caller lets go of only after the move (its address is then free for reuse,
        # and nothing of the moved vector may still be filed under it), or over private storage
        tup = tuple(vals) if spec.get("over_tuple") else None
        v = S.Vector(tup) if tup is not None else S.Vector(list(vals))
        try:
            if move == "same_kind":
                v[0] = vals[0] if vals[0] is not None else base[kind](0)
            elif move == "promote":
                v[0] = wider[kind]
            elif move == "none":
                v[0] = None
            elif move == "slice_write":
                v[0:1] = [wider[kind]]
            elif move == "mask_write":
                v[[True] + [False] * (n - 1)] = wider[kind]
            else:
                keep.append(v << [base[kind](9)])
        except S.AliasError as e:
            return ctx.fail(f"moved/spurious-refusal-on-the-move/{move}", f"{kind} vector of length {n}: {e}")
        except Exception:  # noqa: BLE001  (e.g. a bool vector that rejects an int: no move took place)
            pass
        del tup
        keep.append(v)
    if case["gc"]:
        gc.collect()
    # fresh vectors of every length in play: none of them shares storage with anything
    lengths = sorted({spec["n"] for spec in case["vecs"]} | {2})
    fresh = []
    for L in lengths:
        # created first, written afterwards: while they are all alive each one occupies its own storage, so a freed
        # address that is still registered is handed to one of them
        batch = [S.Vector(list(range(L))) for _ in range(case["fresh"])]
        fresh.append(batch)
        for w in batch:
            ctx.ev()
            try:
                w[0] = 99
            except S.AliasError as e:
                moves = sorted({f"{sp['kind']}/{sp['move']}" for sp in case["vecs"] if sp["n"] == L}) or ["-"]
                return ctx.fail(f"moved/spurious-refusal/fresh-vector/{moves[0]}",
                                f"a fresh Vector of length {L} refused its first write after {[(sp['kind'], sp['n'], sp['move']) for sp in case['vecs']]}: {e}")
    ctx.label("moved_vectors", len(keep))
    if len({sp["move"] for sp in case["vecs"]}) >= 2:
        ctx.nontrivial()
    del fresh


def parts(tier):
    mx = 30 if tier == "quick" else 60
    classes = ["construct", "view", "write", "lifetime", "derive", "rename"]
    extra = ["vec_tuple"] * 14 + ["slice", "slice", "slice", "copy", "mask", "sort", "math", "set_slice", "set_mask", "attr_assign", "attr_assign", "drop_tuple", "drop_tuple", "set_int", "set_int", "set_slice", "drop", "churn", "gc", "rshift", "vec_of_vecs", "attr_assign", "table_dupnames", "table_dupnames", "table_dict", "table_dict", "tset_cell"]
    return [Part("histories", run, strategy=lambda t: W.program(max_steps=mx, classes=classes, always=("construct", "write", "lifetime"), extra_ops=extra),
                 examples=(3000, 40000), shards=(12, 16), floors={"has_shared_pair": 0.12, "has_table_constructor": 0.5, "column_replaced_through_indexed_accessor": 0.005}),
            Part("results", run_results, strategy=lambda t: results_case(t), examples=(3000, 80000), shards=(4, 16)),
            Part("moved", run_moved, strategy=lambda t: moved_case(t), examples=(1200, 30000), shards=(4, 16))]
