"""C15 — alias tracking is exact: no leaked write, no spurious refusal."""
import gc

from harness.loader import load
from harness.runner import Part
from harness import world as W

S = load()

PROPERTY = "C15"
LEVEL_TEXT = 'Exploration of creation / sharing / writing / replacement / dropping / gc histories against a shadow model of the true sharing relation, with an end-of-program sweep of 336 fresh-vector writes to make id() reuse observable; replay repeats 30 times.'
LEVEL_NOTE = 'id() reuse depends on the allocator: the sweep makes a stale registration fire with high probability but cannot force it.'
DESIGN_REF = "DESIGN.md §5 C15"
ENGINE = "world"
REPLAY_REPEATS = 30
TECHNIQUE = "model-based property testing over histories of creation / sharing / writing / column replacement / promotion / dropping / garbage collection with allocation churn; oracle = shadow model of the true storage-sharing relation; end-of-program amplification sweep of fresh-vector writes to make id() reuse observable"
RULE = ("world programs over Vector(tuple) on a few caller tuples (the only real sharing), Vector(list), copies, slices, results, tables "
        "built by every constructor (>>, Vector([...]), dict, selections, attribute assignment), live column views, writes with and "
        "without promotion, handle drops, drops into reference cycles, gc, allocation churn; each program ends with a sweep that "
        "creates and writes 48 fresh vectors of each length 0..6 while the whole pool is alive. Non-trivial = the program has a "
        "shared pair, a write the model says is private after a table constructor or column replacement ran, and a drop; "
        "distinct = program encoding.")
ASSUMPTIONS = [
    "two vectors share storage only when built over the same caller-supplied tuple object and until one of them is written; every other vector (fresh, copy, slice, result, table column, empty) has private storage",
    "an object dropped into an uncollected reference cycle still counts as live",
    "whether a freed id() is reused depends on the allocator: the sweep makes a stale registration fire with high probability, it cannot force it; replay runs the saved program 30 times",
]


class Hooks(W.Hooks):
    def __init__(self, ctx):
        self.ctx = ctx
        self.shared_pairs = 0
        self.private_writes_after_table = 0
        self.table_ops = 0
        self.drops = 0
        self.failed = False

    def pre(self, world, step):
        return {e.id: W.snap(e.obj) for e in world.entries}

    def _sharers(self, world, a, token):
        if token is None:
            return []
        out = [e for e in world.live("vec") if e.obj is not a.obj and e.token == token]
        out += [c for c in world.cycles if c[2] == token and c[1]() is not None]
        return out

    def post(self, world, step, si, pre):
        ctx = self.ctx
        if si.skipped or self.failed:
            return
        ctx.ev()
        if si.op == "vec_tuple" and si.results:
            tok = si.results[0].token
            if len([e for e in world.live("vec") if e.token == tok]) >= 2:
                self.shared_pairs += 1
        if si.op in ("table_dict", "table_vecs", "vec_of_vecs", "rshift", "attr_assign", "select", "slice", "mask", "join", "sort"):
            self.table_ops += 1
        if si.op in ("drop", "drop_cycle"):
            self.drops += 1
        if si.op == "attr_assign" and si.info.get("ok") and "__" in str(si.info.get("accessor")):
            self.indexed_assigns = getattr(self, "indexed_assigns", 0) + 1
        if si.kind == "write" and si.info.get("ok") and si.operands and si.operands[0].origin == "tuple":
            b, a_ = si.info.get("before"), W.snap(si.operands[0].obj)
            if b and b[2] and a_[2] and b[2][0] != a_[2][0]:
                self.promoted_tuple_vectors = getattr(self, "promoted_tuple_vectors", 0) + 1
        if si.op == "drop_tuple" and getattr(self, "promoted_tuple_vectors", 0):
            ctx.label("caller_tuple_dropped_after_promotion")
        if si.kind != "write" or si.op == "attr_assign":
            if isinstance(si.exc, S.AliasError):
                self.failed = ctx.fail(f"aliaserror-from-non-write/{si.op}", f"step {step}: {si.exc}")
            return
        tgt = world.by_id(si.info["target"])
        if tgt is None:
            return
        if tgt.typ == "vec":
            sharers = self._sharers(world, tgt, si.info.get("token_before"))
        else:
            sharers = []     # table columns always have private storage
        refused = isinstance(si.exc, S.AliasError)
        # nobody else may observe the write
        allowed = set(si.may_change) | {e.id for e in world.entries if e.obj is tgt.obj}
        for e in world.entries:
            if e.id in pre and e.id not in allowed and W.snap(e.obj) != pre[e.id] and (refused or e.token is not None):
                self.failed = ctx.fail(f"write-observed-by-another-vector/{si.op}", f"step {step}: entry {e.id} changed {pre[e.id]} -> {W.snap(e.obj)}")
                return
        if refused:
            ctx.label("refusals")
            if W.snap(tgt.obj) != pre.get(tgt.id):
                self.failed = ctx.fail("refused-write-changed-the-target", f"step {step}")
                return
            if not sharers:
                origin = tgt.origin if tgt.typ == "vec" else "table"
                empty = "empty" if len(tgt.obj) == 0 else "nonempty"
                ctx.fail(f"spurious-refusal/{origin}/{empty}", f"step {step}: AliasError although the model knows no live sharer "
                         f"(target origin {tgt.origin}, len {len(tgt.obj)})")
                return      # (a known / already reported tag: keep exploring behind it)
            ctx.label("legit_refusals")
        else:
            if si.info.get("ok") and not sharers:
                ctx.label("private_writes")
                if self.table_ops:
                    self.private_writes_after_table += 1

    def finish(self, world):
        if self.failed:
            return
        ctx = self.ctx
        # amplification: with the whole pool alive, fresh vectors of every small length must be writable
        keep = []
        for L in range(0, 7):
            batch = [S.Vector(list(range(L))) if L else S.Vector([]) for _ in range(48)]
            keep.append(batch)
            for v in batch:
                ctx.ev()
                try:
                    if L:
                        v[0] = 99
                    else:
                        v[:] = []
                except S.AliasError as e:
                    kinds = sorted({e_.origin for e_ in world.entries})
                    ctx.fail(f"spurious-refusal/fresh-vector-in-sweep/{'empty' if L == 0 else 'nonempty'}",
                             f"a fresh Vector of length {L} refused its first write: {e}; live pool origins {kinds}")
                    break   # (known / already reported: go on with the next length)
        del keep


def run(case, ctx):
    h = Hooks(ctx)
    W.run_program(case, h)
    if h.shared_pairs and h.private_writes_after_table and h.drops:
        ctx.nontrivial()
    ctx.label("has_shared_pair", int(h.shared_pairs > 0))
    ctx.label("has_table_constructor", int(h.table_ops > 0))
    ctx.label("column_replaced_through_indexed_accessor", int(getattr(h, "indexed_assigns", 0) > 0))


def parts(tier):
    mx = 30 if tier == "quick" else 60
    classes = ["construct", "view", "write", "lifetime", "derive", "rename"]
    extra = ["vec_tuple"] * 14 + ["slice", "slice", "slice", "copy", "mask", "sort", "math", "set_slice", "set_mask", "attr_assign", "attr_assign", "drop_tuple", "drop_tuple", "set_int", "set_int", "set_slice", "drop", "churn", "gc", "rshift", "vec_of_vecs", "attr_assign", "table_dupnames", "table_dupnames"]
    return [Part("histories", run, strategy=lambda t: W.program(max_steps=mx, classes=classes, always=("construct", "write", "lifetime"), extra_ops=extra),
                 examples=(3000, 40000), shards=(12, 16), floors={"has_shared_pair": 0.12, "has_table_constructor": 0.5, "column_replaced_through_indexed_accessor": 0.005})]
