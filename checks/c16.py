"""C16 — fingerprints track content: never stale, and they notice every change."""
from hypothesis import strategies as st

from harness.loader import load
from harness.runner import Part
from harness import world as W
from harness import values as V
from harness import relational as R
from harness.refmodel import freeze

S = load()

PROPERTY = "C16"
LEVEL_TEXT = 'Exploration: fingerprint() compared with a fresh rebuild at every read and at program end (histories), under random interleavings of table reads / column reads / four write paths, plus metamorphic sensitivity for single-position changes and swaps (scalars and tuple / list / dict / set cells), equal-valued overwrites of the next rung, and refused writes.'
LEVEL_NOTE = "'Notices every change' is decided only for changes a 61-bit polynomial digest must see (rule 4.7)."
DESIGN_REF = "DESIGN.md §5 C16"
ENGINE = "world"
TECHNIQUE = "model-based property testing over histories that interleave fingerprint() reads with every write path (oracle: fingerprint of a freshly rebuilt object with the same contents), plus a metamorphic sensitivity part (single-position change / swap / permutation must change the fingerprint)"
RULE = ("histories: world programs with fingerprint() as an explicit step, so every object is in one of the states never-read / read-"
        "before-last-write / read-after, interleaved with element, slice, mask, index-list assignment, promotion, table cell / row / "
        "column / region assignment, writes through live column views, attribute replacement and renames; every live object is "
        "compared with a fresh rebuild at each read and at program end. sensitivity: generated vectors / tables with one position "
        "changed to a hash-distinguishable value (compound cells judged on a canonical hashable form), two positions swapped, or a permutation; an element overwritten by an equal value of the next rung (1 -> 1.0, a day -> its midnight); writes that are refused after the fingerprint was cached. Non-trivial = a fingerprint read on a "
        "table before a write through a view / table assignment and a read after; distinct = case encoding.")
ASSUMPTIONS = [
    "'notices every change' is decided for changes a 61-bit polynomial digest over hash() must see: one changed position (or a swap of two positions) whose old and new values have different hash(), ints bounded by 2^59; multi-position writes can cancel by construction and are not asserted",
    "the reference fingerprint is that of a fresh Vector / Table built from list(...) of the current contents (names do not matter)",
]


def fresh_fp(obj):
    if isinstance(obj, S.Table):
        cols = [S.Vector(list(c), name=c.name) for c in obj.cols()]
        if not cols:
            return S.Table().fingerprint()
        return S.Table(cols).fingerprint()
    return S.Vector(list(obj)).fingerprint()


class Hooks(W.Hooks):
    def __init__(self, ctx):
        self.ctx = ctx
        self.read_tables = set()
        self.written_after_read = set()
        self.nontrivial = False
        self.last_read = {}          # entry id -> (value, contents snapshot)
        self.failed = False

    def _check(self, e, where, value=None):
        ctx = self.ctx
        ctx.ev()
        try:
            got = e.obj.fingerprint() if value is None else value
            want = fresh_fp(e.obj)
        except Exception as ex:  # noqa: BLE001
            self.failed = ctx.fail(f"{where}/raised/{type(ex).__name__}", str(ex))
            return True
        if got != want:
            state = "read-before-write" if e.id in self.written_after_read else "other"
            self.failed = ctx.fail(f"stale/{e.typ}/{where}/{state}",
                                   f"{e.typ} (origin {e.origin}) contents {W.snap(e.obj)}: fingerprint() = {got}, a fresh build gives {want}")
            return True
        return False

    def post(self, world, step, si, pre):
        if si.skipped or self.failed:
            return
        if si.op == "fingerprint" and si.exc is None:
            e = si.operands[0]
            if self._check(e, "at-read", si.info["value"]):
                return
            cont = W.snap(e.obj)[3]
            if e.id in self.last_read and self.last_read[e.id][1] == cont and self.last_read[e.id][0] != si.info["value"]:
                self.failed = self.ctx.fail("changed-without-a-content-change", f"{self.last_read[e.id][0]} -> {si.info['value']}")
                return
            self.last_read[e.id] = (si.info["value"], cont)
            if e.typ == "table":
                if e.id in self.written_after_read:
                    self.nontrivial = True
                self.read_tables.add(e.id)
            # every handle of a table whose fingerprint was read before
        if si.kind == "write" and si.info.get("ok"):
            for i in si.may_change:
                if i in self.read_tables:
                    self.written_after_read.add(i)
            self.ctx.label("writes")

    def finish(self, world):
        if self.failed:
            return
        for e in world.entries:
            if e.obj is not None and self._check(e, "at-end"):
                return


def run(case, ctx):
    h = Hooks(ctx)
    W.run_program(case, h)
    if h.nontrivial:
        ctx.nontrivial()
    ctx.label("table_read_then_written", int(bool(h.written_after_read)))


# ---------------------------------------------------------------- sensitivity
sens_el = {
    "int": st.integers(-(2 ** 59), 2 ** 59), "smallint": st.integers(-5, 5), "str": V.strs, "float": st.one_of(V.small_floats, V.small_floats, st.sampled_from([float("inf"), float("-inf"), -0.0])),
    "date": V.dates, "bool": st.booleans(), "none_int": st.one_of(st.none(), st.integers(-5, 5)),
    # compound cells (serif defines their element hash itself): tuples, lists, dicts, sets of small non-negative ints
    "tuple": st.lists(st.integers(0, 5), max_size=3).map(tuple),
    "list": st.lists(st.integers(0, 5), max_size=3),
    "dict": st.dictionaries(st.sampled_from(["k", "j", "q"]), st.integers(0, 5), min_size=1, max_size=2),
    "set": st.sets(st.integers(0, 5), min_size=1, max_size=3),
    "set2": st.sets(st.integers(0, 6), min_size=2, max_size=2),        # pairs: many distinct sets of one size (and of one sum)
    "cells": st.one_of(st.lists(st.integers(0, 5), max_size=3).map(tuple), st.lists(st.integers(0, 5), max_size=3), st.integers(0, 5)),
}


@st.composite
def sens_case(draw, tier="quick"):
    k = draw(st.sampled_from(list(sens_el)))
    n = draw(st.integers(1, 8))
    vals = draw(st.lists(sens_el[k], min_size=n, max_size=n))
    mode = draw(st.sampled_from(["change", "change", "swap", "permute", "table_cell", "table_columns", "twin", "failed"]))
    i, j = draw(st.integers(0, n - 1)), draw(st.integers(0, n - 1))
    new = draw(sens_el[k])
    perm = draw(st.permutations(list(range(n))))
    other = draw(st.lists(sens_el["smallint"], min_size=n, max_size=n))
    via = draw(st.sampled_from(["setitem", "rebuild", "view", "table_item", "attr"]))
    return {"vals": vals, "mode": mode, "i": i, "j": j, "new": new, "perm": perm, "other": other, "via": via,
            "read_first": draw(st.booleans())}


def _canon(x):
    """hashable stand-in of a compound cell, type included (a list is not a tuple, a set is not a list)"""
    if isinstance(x, dict):
        return ("dict", tuple(sorted((k, _canon(v)) for k, v in x.items())))
    if isinstance(x, (set, frozenset)):
        return (type(x).__name__, tuple(sorted(_canon(e) for e in x)))
    if isinstance(x, (list, tuple)):
        return (type(x).__name__, tuple(_canon(e) for e in x))
    return x


def _hash_distinct(a, b):
    """the two values are unequal and Python's hash() tells them apart (for unhashable cells: the hash of their
    canonical hashable form, so that nothing hash() itself cannot see is demanded)"""
    try:
        return hash(a) != hash(b)
    except TypeError:
        pass
    try:
        return a != b and hash(_canon(a)) != hash(_canon(b))
    except TypeError:
        return False


def _twin(x):
    """an equal value of the next rung (1 -> 1.0, True -> 1, 1.5 -> 1.5+0j, a day -> its midnight): writing it over x
    promotes the column although no position compares unequal afterwards"""
    from datetime import datetime as _dtm, date as _d
    if type(x) is bool:
        return int(x)
    if type(x) is int:
        return float(x) if abs(x) < 2 ** 53 else None
    if type(x) is float:
        return complex(x)
    if type(x) is _d:
        return _dtm(x.year, x.month, x.day)
    return None


def run_twin(case, ctx):
    """'never stale' for writes that change types but not values: the fingerprint equals that of a fresh build"""
    vals, i = case["vals"], case["i"]
    tw = _twin(vals[i])
    if tw is None:
        return
    via = case["via"]
    ctx.ev()
    # a day and its midnight are unequal and hash differently (unlike 1 and 1.0): such a write has to be noticed as well
    must_change = vals[i] != tw and _hash_distinct(vals[i], tw)
    if via in ("table_item", "view", "attr"):
        t = R.build_table([("a", list(vals)), ("b", list(case["other"]))])
        fp_before_t = fresh_fp(t)
        if case["read_first"]:
            t.fingerprint()
            t.cols()[0].fingerprint()
        try:
            if via == "view":
                t.cols()[0][i] = tw
            elif via == "attr":
                t.a[i:i + 1] = [tw]
            else:
                t[i, "a"] = tw
        except Exception:  # noqa: BLE001
            return
        if must_change and t.fingerprint() == fp_before_t:
            return ctx.fail(f"change-not-noticed/table/next-rung-overwrite/{type(vals[i]).__name__}",
                            f"{vals}[{i}] = {tw!r}: {vals[i]!r} != {tw!r} and hash() tells them apart, the table's fingerprint stayed {fp_before_t}")
        if t.fingerprint() != fresh_fp(t):
            return ctx.fail(f"stale/table/equal-valued-overwrite/{via}/{type(vals[i]).__name__}",
                            f"{vals}[{i}] = {tw!r} (cached={case['read_first']}): column now {list(t.cols()[0])}")
        col = t.cols()[0]
        if col.fingerprint() != S.Vector(list(col)).fingerprint():
            return ctx.fail(f"stale/vector/equal-valued-overwrite/{via}/{type(vals[i]).__name__}", f"{vals}[{i}] = {tw!r}")
    else:
        v = S.Vector(list(vals))
        fp_before_v = S.Vector(list(vals)).fingerprint()
        if case["read_first"]:
            v.fingerprint()
        try:
            if via == "setitem":
                v[i] = tw
            else:
                v[[i]] = [tw]
        except Exception:  # noqa: BLE001
            return
        if must_change and v.fingerprint() == fp_before_v:
            return ctx.fail(f"change-not-noticed/vector/next-rung-overwrite/{type(vals[i]).__name__}",
                            f"{vals}[{i}] = {tw!r}: {vals[i]!r} != {tw!r} and hash() tells them apart, the fingerprint stayed {fp_before_v}")
        # ... and of a fresh build from the values as the program wrote them (equal, element by element, to what the vector
        # holds after the promotion: 1 where it now holds 1.0)
        wrote = list(vals)
        wrote[i] = tw
        if not must_change and all(a_ == b_ for a_, b_ in zip(wrote, list(v))) and all(type(a_) in (bool, int, float, complex) for a_ in wrote):
            try:
                fw = S.Vector(list(wrote)).fingerprint()
            except Exception:  # noqa: BLE001
                fw = None
            if fw is not None and fw != v.fingerprint():
                return ctx.fail(f"stale/vector/promoted-differs-from-equal-fresh-build/{type(vals[i]).__name__}",
                                f"{vals}[{i}] = {tw!r}: the vector holds {list(v)}, a fresh Vector({wrote}) (equal element by element) has another fingerprint")
        if v.fingerprint() != S.Vector(list(v)).fingerprint():
            return ctx.fail(f"stale/vector/equal-valued-overwrite/{via}/{type(vals[i]).__name__}",
                            f"{vals}[{i}] = {tw!r} (cached={case['read_first']}): now {list(v)}")
    ctx.label("equal_valued_overwrites")
    if case["read_first"]:
        ctx.nontrivial()


def run_failed(case, ctx):
    """a write that is refused (bad position, wrong length, a value the column does not take) leaves the fingerprint what a
    fresh build of the (unchanged or not) contents gives - also when the refusal comes after a promotion was prepared"""
    vals, i = case["vals"], case["i"]
    n = len(vals)
    wider = _twin(vals[i]) if _twin(vals[i]) is not None else case["new"]
    via = case["via"]
    if via in ("table_item", "view", "attr"):
        t = R.build_table([("a", list(vals)), ("b", list(case["other"]))])
        target, col = t, t.cols()[0]
    else:
        t = None
        target = col = S.Vector(list(vals))
    if case["read_first"]:
        target.fingerprint()
        col.fingerprint()
    attempts = [lambda: col.__setitem__([i, n + 1], [wider, wider]), lambda: col.__setitem__((i, -n - 2), [wider, wider]),
                lambda: col.__setitem__(S.Vector([i, n + 3]), [wider, wider]), lambda: col.__setitem__(slice(0, n), [wider] * (n + 1)),
                lambda: col.__setitem__([i], [wider, wider])]
    if t is not None:
        attempts += [lambda: t.__setitem__(((i, n + 1), "a"), wider), lambda: t.__setitem__((i, slice(None)), [wider]),
                     lambda: t.__setitem__((n + 2, "a"), wider)]
    refused = 0
    for k_, attempt in enumerate(attempts):
        ctx.ev()
        try:
            attempt()
        except Exception:  # noqa: BLE001
            refused += 1
        if col.fingerprint() != S.Vector(list(col)).fingerprint():
            return ctx.fail(f"stale/vector/after-refused-write/{type(vals[i]).__name__}",
                            f"{vals}: attempt {k_} with {wider!r} (cached={case['read_first']}), now {list(col)}")
        if t is not None and t.fingerprint() != fresh_fp(t):
            return ctx.fail(f"stale/table/after-refused-write/{type(vals[i]).__name__}", f"{vals}: attempt {k_} with {wider!r}")
    ctx.label("refused_writes", refused)
    if refused and case["read_first"]:
        ctx.nontrivial()


def run_sens(case, ctx):
    vals, mode, i, j = case["vals"], case["mode"], case["i"], case["j"]
    if isinstance(vals[i], (list, tuple)):
        # the same inner object twice inside one cell, against an equal cell built from separate objects: same contents
        inner = vals[i]
        shared = [inner, inner] if isinstance(inner, list) else (inner, inner)
        apart = [list(inner), list(inner)] if isinstance(inner, list) else (tuple(list(inner)), tuple(x for x in inner))
        ctx.ev()
        try:
            fa, fb = S.Vector([shared, 1]).fingerprint(), S.Vector([apart, 1]).fingerprint()
        except Exception as e:  # noqa: BLE001
            return ctx.fail(f"compound-cell/raised/{type(e).__name__}", f"{shared!r}: {e}")
        if fa != fb:
            return ctx.fail("stale/vector/object-sharing-inside-a-cell-changes-the-fingerprint", f"{shared!r} (one inner object twice) vs {apart!r} (equal, separate objects)")
        # a NaN inside a cell: which NaN object it is is no part of the contents (as for a NaN that is a cell itself)
        mk = (lambda: list(inner) + [float("nan")]) if isinstance(inner, list) else (lambda: tuple(inner) + (float("nan"),))
        ctx.ev()
        try:
            c1, c2 = mk(), mk()              # both alive: two distinct NaN objects
            f1, f2 = S.Vector([c1, 1]).fingerprint(), S.Vector([c2, 1]).fingerprint()
        except Exception as e:  # noqa: BLE001
            return ctx.fail(f"compound-cell/raised/{type(e).__name__}", f"{mk()!r}: {e}")
        if f1 != f2:
            return ctx.fail("stale/vector/nan-identity-inside-a-cell-changes-the-fingerprint", f"two builds of {mk()!r} (different NaN objects)")
    if mode == "twin":
        return run_twin(case, ctx)
    if mode == "failed":
        return run_failed(case, ctx)
    after = list(vals)
    if mode in ("change", "table_cell"):
        after[i] = case["new"]
        if not _hash_distinct(vals[i], case["new"]):
            return
    elif mode == "swap":
        after[i], after[j] = vals[j], vals[i]
        if i == j or not _hash_distinct(vals[i], vals[j]):
            return
    else:
        after = [vals[p] for p in case["perm"]]
        diff = [p for p in range(len(vals)) if not (vals[p] == after[p] and type(vals[p]) is type(after[p]))]
        if len(diff) != 2 or not _hash_distinct(vals[diff[0]], vals[diff[1]]):
            return          # only transpositions are decided (a longer cycle could cancel in principle)
    ctx.ev()
    if mode == "table_columns":
        # element order matters at table level too: the same columns in another order, or a value moved across columns
        a, b = list(vals), list(case["other"])
        fa, fb = S.Vector(a).fingerprint(), S.Vector(b).fingerprint()
        if fa == fb:
            return
        t1 = S.Table([S.Vector(a, name="a"), S.Vector(b, name="b")])
        t2 = S.Table([S.Vector(b, name="a"), S.Vector(a, name="b")])
        if t1.fingerprint() == t2.fingerprint():
            return ctx.fail("change-not-noticed/table/column-order", f"columns {a} | {b} and {b} | {a} have the same fingerprint")
        if _hash_distinct(a[i], b[i]) and type(a[i]) is int and type(b[i]) is int:
            t3 = R.build_table([("a", a), ("b", b)])
            if case["read_first"]:
                t3.fingerprint()
            before = fresh_fp(t3)
            try:
                t3[i, :] = [b[i], a[i]]          # the two cells of row i trade places
            except Exception:  # noqa: BLE001
                return
            if t3.fingerprint() == before:
                return ctx.fail("change-not-noticed/table/cells-swapped-across-columns", f"row {i}: ({a[i]}, {b[i]}) -> ({b[i]}, {a[i]})")
            if t3.fingerprint() != fresh_fp(t3):
                return ctx.fail("stale/table/sensitivity-row-assignment", f"{a} | {b} row {i}")
        ctx.nontrivial()
        return
    if mode == "table_cell":
        t = R.build_table([("a", list(vals)), ("b", list(case["other"]))])
        if case["read_first"]:
            t.fingerprint()
        before = S.Table([S.Vector(list(vals)), S.Vector(list(case["other"]))]).fingerprint()
        via = case["via"]
        try:
            if via == "view":
                t.cols()[0][i] = case["new"]
            elif via == "attr":
                t.a = list(after)
            else:
                t[i, "a"] = case["new"]
        except Exception:  # noqa: BLE001  (type rejection: nothing to decide)
            return
        now = t.fingerprint()
        if [freeze(x) for x in t.cols()[0]] != [freeze(x) for x in after] and not all(a == b for a, b in zip(t.cols()[0], after)):
            return
        if now == before:
            return ctx.fail(f"change-not-noticed/table/{'cached' if case['read_first'] else 'uncached'}",
                            f"table column {vals} -> {after} via {via}: fingerprint unchanged ({now})")
        if now != fresh_fp(t):
            return ctx.fail(f"stale/table/sensitivity-{via}", f"{vals} -> {after}")
        ctx.nontrivial()
        return
    v = S.Vector(list(vals))
    before = v.fingerprint() if case["read_first"] else S.Vector(list(vals)).fingerprint()
    if case["via"] == "setitem" and mode == "change":
        try:
            v[i] = case["new"]
        except Exception:  # noqa: BLE001
            return
        w = v
    else:
        w = S.Vector(list(after))
    now = w.fingerprint()
    if now == before:
        return ctx.fail(f"change-not-noticed/vector/{mode}", f"{vals} -> {list(w)}: fingerprint unchanged ({now})")
    if now != S.Vector(list(w)).fingerprint():
        return ctx.fail("stale/vector/sensitivity", f"{vals} -> {list(w)}")
    if mode != "change" or case["read_first"]:
        ctx.nontrivial()


# ---------------------------------------------------------------- interleavings on one table: table reads, column reads, writes
@st.composite
def interleave_case(draw, tier="quick"):
    k = draw(st.integers(1, 3))
    n = draw(st.integers(1, 4))
    kinds = [draw(st.sampled_from(["int", "date", "bigint", "str"])) for _ in range(k)]
    el = {"int": st.integers(-5, 5), "date": V.dates, "bigint": st.sampled_from([2 ** 53 + 1, 2 ** 60 + 3, 7]), "str": V.simple_strs}
    cols = [draw(st.lists(el[kd], min_size=n, max_size=n)) for kd in kinds]
    newv = {"int": st.one_of(st.integers(-5, 5), st.sampled_from([2.5, None])), "date": st.one_of(V.dates, V.datetimes, st.none()),
            "bigint": st.sampled_from([0.5, 3, 2 ** 53 + 2]), "str": st.one_of(V.simple_strs, st.none())}
    steps = []
    for _ in range(draw(st.integers(2, 10))):
        op = draw(st.sampled_from(["table_fp", "table_fp", "col_fp", "write_view", "write_view", "write_item", "write_attr", "write_slice"]))
        j = draw(st.integers(0, k - 1))
        steps.append((op, j, draw(st.integers(0, n - 1)), draw(newv[kinds[j]])))
    return {"kinds": kinds, "cols": cols, "steps": steps}


def run_interleave(case, ctx):
    cols = case["cols"]
    t = R.build_table([(f"c{j}", list(c)) for j, c in enumerate(cols)])
    read_before_write = False
    reads = writes = 0
    for op, j, i, x in case["steps"]:
        try:
            if op == "table_fp":
                ctx.ev()
                got, want = t.fingerprint(), fresh_fp(t)
                if got != want:
                    return ctx.fail("stale/table/interleaving", f"after steps up to {op}: contents {W.snap(t)[3]} fingerprint {got}, fresh build {want}; case {case['steps']}")
                reads += 1
                if writes:
                    read_before_write = True
            elif op == "col_fp":
                ctx.ev()
                c = t.cols()[j]
                if c.fingerprint() != S.Vector(list(c)).fingerprint():
                    return ctx.fail("stale/vector/interleaving-column", f"column {list(c)}; case {case['steps']}")
            elif op == "write_view":
                t.cols()[j][i] = x
                writes += 1
            elif op == "write_slice":
                t.cols()[j][i:] = x
                writes += 1
            elif op == "write_item":
                t[i, f"c{j}"] = x
                writes += 1
            else:
                vals = list(t.cols()[j])
                vals[i] = x
                setattr(t, f"c{j}", vals)
                writes += 1
        except S.SerifError:
            continue
        except (TypeError, ValueError, AttributeError):
            continue
    ctx.ev()
    if t.fingerprint() != fresh_fp(t):
        return ctx.fail("stale/table/interleaving", f"at end: {W.snap(t)[3]}; case {case['steps']}")
    for c in t.cols():
        if c.fingerprint() != S.Vector(list(c)).fingerprint():
            return ctx.fail("stale/vector/interleaving-column", f"at end: column {list(c)}; case {case['steps']}")
    if read_before_write:
        ctx.nontrivial()
    ctx.label("promotion_candidates", int(any(kd in ("date", "bigint") for kd in case["kinds"])))


def parts(tier):
    mx = 30 if tier == "quick" else 60
    extra = ["fingerprint"] * 3 + ["fingerprint_table"] * 8 + ["col_view", "set_int", "tset_cell", "tset_cell", "tset_cell", "attr_assign", "tset_col", "tset_row", "set_slice"]
    return [
        Part("histories", run, strategy=lambda t: W.program(max_steps=mx, always=("construct", "view", "write", "read"), extra_ops=extra),
             examples=(3000, 64000), shards=(12, 16), floors={"table_read_then_written": 0.08}),
        Part("sensitivity", run_sens, strategy=lambda t: sens_case(t), examples=(3000, 100000), shards=(4, 16)),
        Part("table_interleave", run_interleave, strategy=lambda t: interleave_case(t), examples=(3000, 100000), shards=(4, 16),
             floors={"promotion_candidates": 0.3}),
    ]
