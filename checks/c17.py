"""C17 — every column is reachable by exactly one advertised, valid accessor name."""
import itertools
import re

from hypothesis import strategies as st

from harness.loader import load
from harness.runner import Part
from harness import values as V
from harness import relational as R
from harness.refmodel import freeze

S = load()

PROPERTY = "C17"
LEVEL_TEXT = 'Bounded-exhaustive over a 32-name collision alphabet up to width 3 (thorough 4) + random unicode names up to width 22 + rename/replace/append histories; atheris campaign in the thorough tier.'
LEVEL_NOTE = 'Advertised accessors = dir(table) minus dir(Table()); exact spelling asserted only for unambiguous, unreserved bases.'
DESIGN_REF = "DESIGN.md §5 C17"
ENGINE = "world"
TECHNIQUE = "bounded-exhaustive enumeration of column-name lists over a collision alphabet + Hypothesis-generated unicode name lists and rename/replace/append histories (model-based: the model tracks stored names); invariant re-checked after every step; atheris campaign on name lists in the thorough tier"
RULE = ("exhaustive: all name lists of width 1..3 (thorough 1..4) over a 32-name collision alphabet (reserved names, name__N and "
        "colN_ look-alikes, keywords, names that sanitise to nothing, None, empty, case variants); random: width <= 12, arbitrary "
        "unicode names; histories of rename through a live view, rename_column(s), attribute replacement, >> additions interleaved "
        "with dir(), repr() and attribute reads. Non-trivial = a collision after sanitisation or a reserved / look-alike name, or a "
        "history with a rename through a view followed by dir(); distinct = case (+ sub-case) encoding.")
ASSUMPTIONS = [
    "advertised accessors = dir(table) minus dir(Table()) (what tab completion adds for the columns)",
    "a Python keyword such as 'class' counts as a valid identifier (str.isidentifier() is true); counted, not reported",
    "the documented sanitisation is asserted exactly only for columns whose sanitised base is unique in the table, not reserved and not of the form x__N; for the others only validity, distinctness and resolution are asserted (suffix format is unspecified)",
    "the repr dot row is parsed only for tables of <= 10 columns whose names contain no whitespace-breaking characters",
]

ALPHABET = V.COLLISION_NAMES
BASE_DIR = None


def base_dir():
    global BASE_DIR
    if BASE_DIR is None:
        BASE_DIR = set(dir(S.Table()))
    return BASE_DIR


def ref_sanitise(name):
    """the documented rules; returns None for 'unnamed'"""
    if name is None:
        return None
    if not isinstance(name, str):
        name = str(name)
    s = re.sub(r"[^a-z0-9_]+", "_", name.lower()).strip("_")
    if s == "":
        return None
    if s[0].isdigit():
        s = "c" + s
    return s


_RESERVED = None


def is_reserved(base):
    """base collides (case-insensitively: accessors are lower-case) with a public Vector/Table attribute;
    for such bases only validity/distinctness/resolution are asserted, not the exact spelling"""
    global _RESERVED
    if _RESERVED is None:
        _RESERVED = {n.lower() for cls in (S.Table, S.Vector) for n in dir(cls) if not n.startswith("_")}
    return base in _RESERVED


def check_accessors(ctx, t, names, where, dir_first=True, write=True):
    """the C17 invariant on one table whose stored names the model says are `names`"""
    ncols = len(names)
    ctx.ev()
    if list(t.column_names()) != list(names):
        return ctx.fail(f"{where}/stored-names-altered", f"column_names() {t.column_names()} but the model says {names}")
    cols = t.cols()
    if len(cols) != ncols:
        return ctx.fail(f"{where}/column-count", f"{len(cols)} vs {ncols}")
    probe = None
    if not dir_first and ncols:
        # attribute read before dir(): must work as well
        b = ref_sanitise(names[0])
        if b is not None and not is_reserved(b) and not re.match(r"^.+__\d+$", b) and [ref_sanitise(x) for x in names].count(b) == 1:
            try:
                probe = getattr(t, b)
            except AttributeError as e:
                return ctx.fail(f"{where}/documented-accessor-unresolvable-before-dir", f"names {names}: t.{b}: {e}")
            if probe is not cols[0]:
                return ctx.fail(f"{where}/documented-accessor-wrong-column", f"names {names}: t.{b} is not column 0")
    adv = sorted(set(dir(t)) - base_dir())
    if len(adv) != ncols:
        bases = [ref_sanitise(x) for x in names]
        return ctx.fail(f"{where}/advertised-count", f"names {names}: advertised {adv} ({len(adv)}) for {ncols} columns (bases {bases})")
    pos_of = {}
    for a in adv:
        if not (isinstance(a, str) and a.isidentifier() and a.isascii() and a == a.lower()):
            return ctx.fail(f"{where}/accessor-not-a-valid-lowercase-identifier", f"names {names}: accessor {a!r}")
        if hasattr(S.Table, a) or hasattr(S.Vector, a):
            return ctx.fail(f"{where}/accessor-shadows-api", f"names {names}: accessor {a!r} is a public Vector/Table attribute")
        try:
            col = getattr(t, a)
        except AttributeError as e:
            shape = "col-prefix-underscore-suffix" if (a.startswith("col") and a.endswith("_")) else "other"
            return ctx.fail(f"{where}/advertised-accessor-unresolvable/{shape}", f"names {names}: t.{a} raises AttributeError: {e}")
        hit = [i for i, c in enumerate(cols) if c is col]
        if len(hit) != 1:
            return ctx.fail(f"{where}/accessor-resolves-to-no-column", f"names {names}: t.{a} -> {type(col).__name__}")
        pos_of[a] = hit[0]
    if sorted(pos_of.values()) != list(range(ncols)):
        return ctx.fail(f"{where}/accessors-not-a-bijection", f"names {names}: {pos_of}")
    acc_at = {p: a for a, p in pos_of.items()}
    # documented sanitisation for unambiguous columns; first occurrence owns the plain name
    bases = [ref_sanitise(x) for x in names]
    for i, b in enumerate(bases):
        if b is None:
            if acc_at[i] != f"col{i}_":
                return ctx.fail(f"{where}/unnamed-column-accessor", f"names {names}: column {i} has accessor {acc_at[i]!r}, documented col{i}_")
            continue
        if is_reserved(b) or re.match(r"^.+__\d+$", b):
            continue
        if bases.index(b) == i and acc_at[i] != b:
            which = "unique" if bases.count(b) == 1 else "first-of-repeated"
            return ctx.fail(f"{where}/documented-sanitisation/{which}", f"names {names}: column {i} ({names[i]!r}) has accessor {acc_at[i]!r}, documented {b!r}")
    # string indexing by a stored name resolves to its first occurrence
    for i, nm in enumerate(names):
        if isinstance(nm, str):
            first = names.index(nm)
            try:
                got = t[nm]
            except Exception as e:  # noqa: BLE001
                return ctx.fail(f"{where}/stored-name-lookup-failed", f"names {names}: t[{nm!r}]: {e}")
            if got is not cols[first]:
                # a stored name may also equal another column's accessor; the exact stored-name match wins
                return ctx.fail(f"{where}/stored-name-lookup-not-first-occurrence", f"names {names}: t[{nm!r}] is not column {first}")
    # repr dot row
    if len(t) >= 1:
        r = repr(t)
        lines = r.split("\n")
        # a repr shows the first five and the last five columns around '...' when the table has more than ten
        shown = list(range(ncols)) if ncols <= 10 else list(range(5)) + [None] + list(range(ncols - 5, ncols))
        dot = [ln.split() for ln in lines if ln.strip() and all(tk.startswith(".") and len(tk) > 1 for tk in ln.split())]
        dot = [d for d in dot if len(d) == len(shown) and all((tk == "..." and p is None) or (p is not None and re.fullmatch(r"\.[A-Za-z_][A-Za-z0-9_]*", tk))
                                                              for tk, p in zip(d, shown))]
        if dot:
            for i, tk in zip(shown, dot[0]):
                if i is None:
                    continue
                a = tk[1:]
                if a not in pos_of:
                    return ctx.fail(f"{where}/repr-dot-name-not-advertised", f"names {names}: repr shows {tk} for column {i}; advertised {adv}")
                if pos_of[a] != i:
                    return ctx.fail(f"{where}/repr-dot-name-wrong-column", f"names {names}: repr shows {tk} at position {i} but t.{a} is column {pos_of[a]}")
            ctx.label("dot_row_checked")
    # accessor as a column key in item assignment
    if write and len(t) >= 1:
        for a, p in pos_of.items():
            before = [[freeze(x) for x in c] for c in t.cols()]
            sentinel = 7000 + p
            try:
                t[0, a] = sentinel
            except S.AliasError:
                ctx.count("write_refused_by_alias_tracker")     # C15's business, says nothing about accessors
                continue
            except Exception as e:  # noqa: BLE001
                return ctx.fail(f"{where}/accessor-as-assignment-key-failed", f"names {names}: t[0, {a!r}] = ...: {type(e).__name__}: {e}")
            after = [[freeze(x) for x in c] for c in t.cols()]
            changed = [j for j in range(ncols) if after[j] != before[j]]
            if changed != [p] and not (changed == [] and before[p][0] == ("int", sentinel)):
                return ctx.fail(f"{where}/accessor-as-assignment-key-wrong-column", f"names {names}: t[0, {a!r}] changed columns {changed}, accessor belongs to column {p}")
        if list(t.column_names()) != list(names):
            return ctx.fail(f"{where}/stored-names-altered", f"after item assignment: {t.column_names()} vs {names}")
    return False


def _nontrivial_names(names):
    bases = [ref_sanitise(x) for x in names]
    real = [b for b in bases if b is not None]
    return (len(set(real)) < len(real)) or any(b is None or is_reserved(b) or re.match(r"^.+__\d+$", b) or b.startswith("col") for b in bases)


# ---------------------------------------------------------------- exhaustive core
def _width(tier):
    return 3 if tier == "quick" else 4


def enum_cases(tier):
    for w in range(1, _width(tier) + 1):
        if w == 1:
            yield {"w": 1, "first": None}
        else:
            for a in range(len(ALPHABET)):
                yield {"w": w, "first": a}


def run_enum(case, ctx):
    w = case["w"]
    if w == 1:
        lists = [[nm] for nm in ALPHABET]
    else:
        lists = ([ALPHABET[case["first"]]] + list(rest) for rest in itertools.product(ALPHABET, repeat=w - 1))
    for k, names in enumerate(lists):
        t = R.build_table([(nm, [1]) for nm in names])
        if check_accessors(ctx, t, names, "static", dir_first=(k % 2 == 0), write=(k % 3 == 0)):
            return
        if _nontrivial_names(names):
            ctx.nontrivial(str(k))


# ---------------------------------------------------------------- random names
@st.composite
def names_case(draw, tier="quick"):
    if draw(st.integers(0, 4)) == 0:
        # wide tables (the repr elides the middle columns) over a few bases, so that repeats straddle the elided part
        w = draw(st.integers(11, 22))
        names = draw(st.lists(st.sampled_from(["dup x", "dup_x", "a", "b", "c", "d", "e", "f", "g", None, "h", "i"]), min_size=w, max_size=w))
    elif draw(st.integers(0, 3)) == 0:
        # columns named like the public API (methods, properties, classmethods)
        api = sorted({n for cls in (S.Table, S.Vector) for n in dir(cls) if not n.startswith("_")})
        w = draw(st.integers(1, 4))
        names = draw(st.lists(st.one_of(st.sampled_from(api), st.sampled_from(api).map(str.upper), st.sampled_from(api).map(lambda x: x + "!")),
                              min_size=w, max_size=w))
    else:
        w = draw(st.integers(1, 12))
        names = draw(st.lists(st.one_of(V.collision_names, st.text(max_size=8), st.none(),
                                        st.text(alphabet="aAbB_ 1.$é", max_size=6)), min_size=w, max_size=w))
    return {"names": names, "dir_first": draw(st.booleans())}


def run_names(case, ctx):
    names = case["names"]
    t = R.build_table([(nm, [1]) for nm in names])
    if check_accessors(ctx, t, names, "static", dir_first=case["dir_first"]):
        return
    if _nontrivial_names(names):
        ctx.nontrivial()
    ctx.label("wide", int(len(names) > 10))


# ---------------------------------------------------------------- histories
HNAMES = ["a", "b", "A", "a b", "sum", "cols", "x", None, "a__1", "col0_", "", "é", "total", "B!", "column_names"]


@st.composite
def history_case(draw, tier="quick"):
    w = draw(st.integers(1, 4))
    names = draw(st.lists(st.sampled_from(HNAMES), min_size=w, max_size=w))
    steps = draw(st.lists(st.tuples(
        st.sampled_from(["view_rename", "view_rename", "rename_column", "rename_columns", "replace", "append_dict", "append_vec",
                         "dir", "repr", "read"]),
        st.integers(0, 11), st.sampled_from(HNAMES), st.booleans()), min_size=1, max_size=8 if tier == "quick" else 16))
    return {"names": names, "steps": steps}


def run_history(case, ctx):
    names = list(case["names"])
    t = R.build_table([(nm, [1, 2]) for nm in names])
    if check_accessors(ctx, t, names, "history/initial"):
        return
    saw_view_rename = False
    for si, (op, k, new, flag) in enumerate(case["steps"]):
        n = len(names)
        i = k % n
        try:
            if op == "view_rename":
                col = t.cols()[i]
                col.name = new
                names[i] = new
                saw_view_rename = True
                b = ref_sanitise(new)
                bases = [ref_sanitise(x) for x in names]
                if flag and b is not None and bases.count(b) == 1 and not is_reserved(b) and not re.match(r"^.+__\d+$", b):
                    # the documented accessor used at once as an assignment key
                    before = [[freeze(x) for x in c] for c in t.cols()]
                    try:
                        t[0, b] = 4242 + si
                    except S.AliasError:
                        ctx.count("write_refused_by_alias_tracker")
                    except Exception as e:  # noqa: BLE001
                        return ctx.fail("history/write-by-new-accessor-right-after-view-rename/failed", f"names {names}: t[0, {b!r}] = ...: {type(e).__name__}: {e}")
                    else:
                        after = [[freeze(x) for x in c] for c in t.cols()]
                        changed = [j for j in range(len(names)) if after[j] != before[j]]
                        if changed != [i]:
                            return ctx.fail("history/write-by-new-accessor-right-after-view-rename/wrong-column", f"names {names}: changed {changed}, expected [{i}]")
            elif op == "rename_column":
                old = names[i]
                t.rename_column(old, new)
                names[names.index(old)] = new
            elif op == "rename_columns":
                j = (i + 1) % n
                olds = [names[i], names[j]] if i != j else [names[i]]
                news = [new, "zz"][:len(olds)]
                sim = list(names)
                ok = True
                for o, nw in zip(olds, news):
                    if o in sim:
                        sim[sim.index(o)] = nw
                    else:
                        ok = False
                try:
                    t.rename_columns(olds, news)
                    if ok:
                        names = sim
                except Exception:  # noqa: BLE001
                    pass
            elif op == "replace":
                adv = sorted(set(dir(t)) - base_dir())
                if adv:
                    a = adv[k % len(adv)]
                    try:
                        target = [p for p, c in enumerate(t.cols()) if c is getattr(t, a)]
                    except AttributeError:
                        target = []
                    setattr(t, a, [50 + si, 60 + si])
                    if target and list(t.cols()[target[0]]) != [50 + si, 60 + si]:
                        return ctx.fail("history/attribute-replacement-wrong-column", f"names {names}: t.{a} = ... did not replace column {target[0]}")
            elif op == "append_dict":
                t = t >> {new if new is not None else "n": [8, 9]}
                names = names + [new if new is not None else "n"]
            elif op == "append_vec":
                t = t >> S.Vector([8, 9], name=new)
                names = names + [new]
            elif op == "dir":
                dir(t)
            elif op == "repr":
                repr(t)
            elif op == "read":
                b = ref_sanitise(names[i])
                if b is not None:
                    try:
                        getattr(t, b)
                    except AttributeError:
                        pass
        except Exception as e:  # noqa: BLE001
            if type(e).__name__.startswith("Serif") or isinstance(e, (AttributeError, ValueError, KeyError)):
                # a refused step (e.g. rename of a name that is not there): the model did not advance either
                if list(t.column_names()) != names:
                    names = list(t.column_names())
                continue
            raise
        if not isinstance(t, S.Table):
            return
        # the invariant itself calls dir()/getattr and thereby refreshes cached state: after some steps it is
        # deliberately not evaluated, so that sequences like rename -> repr -> attribute access run undisturbed
        last = si == len(case["steps"]) - 1
        if (k % 3 == 0 and not last) and op in ("view_rename", "repr", "dir", "read", "rename_column"):
            continue
        if check_accessors(ctx, t, names, f"history/after-{op}", dir_first=flag):
            return
    if saw_view_rename:
        ctx.nontrivial()
    ctx.label("view_rename", int(saw_view_rename))


def atheris_part(ctx, tier, seed):
    from harness.fuzzdrive import run_campaign
    return run_campaign(ctx, "C17", "fuzz_c17", tier, seed)


def parts(tier):
    w = _width(tier)
    ps = [
        Part("enum_names", run_enum, enumerate=enum_cases, shards=(8, 16), exhaustive=True,
             space=f"all column-name lists of width 1..{w} over the {len(ALPHABET)}-name collision alphabet ({sum(len(ALPHABET) ** k for k in range(1, w + 1))} lists)"),
        Part("random_names", run_names, strategy=lambda t: names_case(t), examples=(1500, 60000), shards=(4, 16), floors={"wide": 0.05}),
        Part("history", run_history, strategy=lambda t: history_case(t), examples=(1500, 60000), shards=(4, 16), floors={"view_rename": 0.3}),
    ]
    if tier == "thorough":
        ps.append(Part("atheris", run_names, custom=atheris_part))
    return ps
