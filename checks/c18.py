"""C18 — names propagate by fixed rules: math drops them, structure keeps them."""
import operator
import re

from hypothesis import strategies as st

from harness.loader import load
from harness.runner import Part
from harness import values as V
from harness import world as W
from harness import relational as R
from checks.c17 import ref_sanitise, is_reserved

S = load()

PROPERTY = "C18"
LEVEL_TEXT = 'Exploration with a name model over histories, directed table/vector arithmetic naming and aggregate/window output naming (bipartite matching up to numeric suffixes).'
LEVEL_NOTE = 'Unruled operations are adopted, not asserted.'
DESIGN_REF = "DESIGN.md §5 C18"
ENGINE = "world"
TECHNIQUE = "model-based property testing: operation histories with a name model (ruled operations are checked against the rule applied to the operands' names; unruled ones are adopted), plus directed generators for table arithmetic naming and aggregate / window output naming"
RULE = ("histories over named / unnamed vectors and tables with repeated, unsanitary and missing names: binary math and comparisons "
        "(unnamed result), copy / slice / mask / index / sort / writes / promotion (name kept), Table([...]), >>, filter, slice, sort, "
        "selections, joins (source names in order), table arithmetic; directed: table-with-scalar and table-with-table arithmetic over "
        "generated name pairs; aggregate / window with 1..3 keys and any aggregate set incl. duplicated bases and apply names. "
        "Non-trivial = a ruled operation applied to an object that is itself the result of >= 2 earlier operations, or an aggregate "
        "case with a duplicated base or a key named like an output; distinct = case encoding.")
ASSUMPTIONS = [
    "operations without a stated rule (unary, cast, fillna, proxies, <<, .T, unique, ...) are executed to build deeper derivation chains; their actual result names are adopted, not asserted",
    "aggregate / window: the first k output names are the key names (unnamed -> 'key'), the others match the multiset of <sanitised column>_<function> bases (apply: the given name) up to a numeric uniquifying suffix; order among the aggregates is not asserted",
    "for a reserved or look-alike column name the sanitised form may carry serif's trailing underscore (sum -> sum_)",
]

MATH_OPS = {"math", "compare"}
KEEP_OPS = {"copy", "slice", "mask", "index", "sort"}


def names_of(obj):
    return list(obj.column_names()) if isinstance(obj, S.Table) else obj.name


class Hooks(W.Hooks):
    def __init__(self, ctx):
        self.ctx = ctx
        self.failed = False
        self.deep_ruled = False

    def pre(self, world, step):
        return {e.id: names_of(e.obj) for e in world.entries}

    def post(self, world, step, si, pre):
        ctx = self.ctx
        if si.skipped or self.failed or si.exc is not None:
            return
        op = si.op
        res = si.results[0] if si.results else None
        a = si.operands[0] if si.operands else None
        ruled = False
        if si.kind in ("write",) and si.info.get("ok") and op != "attr_assign":
            # in-place writes and promotion keep names
            tgt = world.by_id(si.info["target"])
            if tgt is not None and names_of(tgt.obj) != pre.get(tgt.id):
                self.failed = ctx.fail(f"write-changed-name/{op}", f"step {step}: {pre.get(tgt.id)} -> {names_of(tgt.obj)}")
                return
            ruled = True
        elif op == "attr_assign" and si.info.get("ok"):
            tgt = world.by_id(si.info["target"])
            if names_of(tgt.obj) != pre.get(tgt.id):
                self.failed = ctx.fail("column-replacement-changed-stored-names", f"step {step}: {pre.get(tgt.id)} -> {names_of(tgt.obj)}")
                return
        if res is None or a is None:
            if ruled and a is not None:
                ctx.ev()
                ctx.label("ruled_steps")
                if a.depth >= 2:
                    self.deep_ruled = True
            return
        got = names_of(res.obj)
        an = pre.get(a.id)
        if op in MATH_OPS:
            if a.typ == "vec" and res.typ == "vec":
                ruled = True
                if got is not None:
                    self.failed = ctx.fail(f"vector-{op}-result-named/{si.info.get('form', 'obj')}", f"step {step}: operand names {[pre.get(o.id) for o in si.operands]} -> {got!r}")
                    return
            elif a.typ == "table" and res.typ == "table" and op == "math":
                ruled = True
                if si.info.get("form") == "obj":
                    bn = pre.get(si.operands[1].id)
                    want = [l if (r is None or r == l) else None for l, r in zip(an, bn)]
                else:
                    want = list(an)
                if got != want:
                    self.failed = ctx.fail(f"table-math-names/{si.info.get('form')}", f"step {step}: left {an} right {pre.get(si.operands[1].id) if len(si.operands) > 1 else None} -> {got}, rule gives {want}")
                    return
        elif op in KEEP_OPS and res.typ == a.typ:
            ruled = True
            if got != an:
                self.failed = ctx.fail(f"{a.typ}-{op}-lost-names", f"step {step}: {an} -> {got}")
                return
        elif op in ("table_vecs", "vec_of_vecs") and res.typ == "table":
            ruled = True
            want = [pre.get(o.id) for o in si.operands]
            if got != want:
                self.failed = ctx.fail(f"{op}-names", f"step {step}: sources {want} -> {got}")
                return
        elif op == "rshift" and res.typ == "table":
            ruled = True
            left = an if a.typ == "table" else [an]
            form = si.info["form"]
            if form == "dict":
                right = None      # dict keys: checked below through the step payload
                want_prefix = left
                if got[:len(left)] != left or len(got) != len(left) + 1 or not isinstance(got[-1], str):
                    self.failed = ctx.fail("rshift-dict-names", f"step {step}: left {left} -> {got}")
                    return
            else:
                if form == "list":
                    right = [None]
                else:
                    bn = pre.get(si.operands[1].id)
                    right = bn if si.operands[1].typ == "table" else [bn]
                if got != left + right:
                    self.failed = ctx.fail(f"rshift-{form}-names", f"step {step}: {left} >> {right} -> {got}")
                    return
        elif op == "select" and res.typ == "table":
            ruled = True
            if got != list(si.info["sel"]):
                self.failed = ctx.fail("select-names", f"step {step}: {si.info['sel']} -> {got}")
                return
        elif op == "join" and res.typ == "table" and got:
            ruled = True
            want = list(an) + list(pre.get(si.operands[1].id))
            if got != want:
                self.failed = ctx.fail("join-names", f"step {step}: {want} -> {got}")
                return
        if ruled:
            ctx.ev()
            if a.depth >= 2:
                self.deep_ruled = True
            ctx.label("ruled_steps")


def run_history(case, ctx):
    h = Hooks(ctx)
    W.run_program(case, h)
    if h.deep_ruled:
        ctx.nontrivial()
    ctx.label("deep_ruled", int(h.deep_ruled))


# ---------------------------------------------------------------- table arithmetic naming, vectors with arbitrary names
NAMEPOOL = ["a", "b", "A", "a b", None, "sum", "", "é", "x", "a"]


@st.composite
def arith_case(draw, tier="quick"):
    k = draw(st.integers(1, 4))
    ln = draw(st.lists(st.sampled_from(NAMEPOOL), min_size=k, max_size=k))
    rn = draw(st.lists(st.sampled_from(NAMEPOOL), min_size=k, max_size=k))
    if draw(st.booleans()):
        rn = [l if draw(st.booleans()) else r for l, r in zip(ln, rn)]
    return {"ln": ln, "rn": rn, "op": draw(st.sampled_from(["add", "sub", "mul", "truediv", "floordiv", "mod", "pow"])),
            "n": draw(st.integers(1, 3))}


def run_arith(case, ctx):
    ln, rn, n = case["ln"], case["rn"], case["n"]
    op = getattr(operator, case["op"])
    L = R.build_table([(nm, [2 + i for i in range(n)]) for nm in ln])
    # the right table's names are built at run time: equal to the left ones where they are equal, but other str objects
    rn_objs = [None if nm is None else "".join(list(nm)) if len(nm) < 2 else (nm + "#")[:-1] for nm in rn]
    Rt = R.build_table([(nm, [1 + i for i in range(n)]) for nm in rn_objs])
    ctx.ev()
    r = op(L, 2)
    if list(r.column_names()) != list(ln):
        return ctx.fail("table-scalar-names", f"{ln} {case['op']} 2 -> {r.column_names()}")
    # the scalar on the left (2 + t, 2 - t, 7 // t ...) is table-with-scalar arithmetic all the same
    ctx.ev()
    try:
        r = op(3, L)
    except Exception as e:  # noqa: BLE001
        return ctx.fail(f"scalar-table/raised/{type(e).__name__}", f"3 {case['op']} table {ln}: {e}")
    if isinstance(r, S.Table) and list(r.column_names()) != list(ln):
        return ctx.fail("scalar-table-names", f"3 {case['op']} {ln} -> {r.column_names()}")
    ctx.ev()
    r = op(L, Rt)
    want = [l if (x is None or x == l) else None for l, x in zip(ln, rn)]
    if list(r.column_names()) != want:
        return ctx.fail("table-table-names", f"{ln} {case['op']} {rn} -> {r.column_names()}, rule gives {want}")
    # vector level: binary arithmetic / comparison between vectors is unnamed, structure keeps the name
    a, b = S.Vector([3, 1, 2], name=ln[0]), S.Vector([1, 2, 3], name=rn[0])
    for f, tag in ((lambda: op(a, b), "vector-vector"), (lambda: op(a, 2), "vector-scalar"), (lambda: 2 + a, "scalar-vector"),
                   (lambda: a < b, "comparison"), (lambda: a == 2, "comparison-scalar"), (lambda: op(a, [1, 2, 3]), "vector-list")):
        ctx.ev()
        res = f()
        if res.name is not None:
            return ctx.fail(f"vector-math-result-named/{tag}", f"names {ln[0]!r},{rn[0]!r} -> {res.name!r}")
    for f, tag in ((lambda: a.copy(), "copy"), (lambda: a[1:], "slice"), (lambda: a[[True, False, True]], "mask"), (lambda: a.sort_by(), "sort"),
                   (lambda: a[[0, 2]], "index"), (lambda: a.sort_by(reverse=True), "sort-desc")):
        ctx.ev()
        res = f()
        if res.name != ln[0]:
            return ctx.fail(f"vector-{tag}-lost-name", f"{ln[0]!r} -> {res.name!r}")
    w = a.copy()
    w[0] = 2.5          # promotion int -> float keeps the name
    if w.name != ln[0]:
        return ctx.fail("promotion-lost-name", f"{ln[0]!r} -> {w.name!r}")
    if any(x is not None and x != l for l, x in zip(ln, rn)):
        ctx.nontrivial()


# ---------------------------------------------------------------- structural operations keep stored names (any row count)
@st.composite
def struct_case(draw, tier="quick"):
    k = draw(st.integers(1, 4))
    names = draw(st.lists(st.sampled_from(["id", "id", "v", "w", None, "a b", "", "x"]), min_size=k, max_size=k))
    n = draw(st.sampled_from([0, 0, 1, 2, 3]))
    if draw(st.integers(0, 24)) == 0:
        n = draw(st.sampled_from([1000, 1001, 1003, 65]))          # past the sizes at which selection switches strategy
    how_empty = draw(st.sampled_from(["built", "mask", "slice"]))
    return {"names": names, "n": n, "how": how_empty, "rev": draw(st.booleans())}


def run_struct(case, ctx):
    names, n = case["names"], case["n"]
    base_n = n if (n or case["how"] == "built") else 3
    t = R.build_table([(nm, [(i * 7 + j) % 5 for i in range(base_n)]) for j, nm in enumerate(names)])
    if n == 0 and case["how"] == "mask":
        t = t[[False] * base_n]
    elif n == 0 and case["how"] == "slice":
        t = t[base_n:]
    if not isinstance(t, S.Table):
        return
    if list(t.column_names()) != names:
        return ctx.fail("structure/filter-to-empty-lost-names", f"{names} -> {t.column_names()}")
    ops = {
        "sort_by-vector": lambda: t.sort_by(t.cols()[0], reverse=case["rev"]),
        "sort_by-two-keys": lambda: t.sort_by([t.cols()[0], t.cols()[-1]], reverse=[case["rev"], not case["rev"]]),
        "slice": lambda: t[0:max(0, len(t) - 1)], "reverse-slice": lambda: t[::-1],
        "mask": lambda: t[[i % 2 == 0 for i in range(len(t))]] if len(t) else t[S.Vector([], dtype=bool)],
        "index-list": lambda: t[[0, len(t) - 1, 0]] if len(t) else t[0:0], "index-vector": lambda: t[S.Vector([len(t) - 1, 0])] if len(t) else t[0:0],
        "copy": lambda: t.copy(), "stack": lambda: t >> S.Vector(list(range(len(t))), name="extra"),
        "stack-table": lambda: t >> t,
    }
    for name, f in ops.items():
        ctx.ev()
        try:
            r = f()
        except Exception as e:  # noqa: BLE001
            return ctx.fail(f"structure/{name}/raised/{type(e).__name__}", f"names {names} rows {len(t)}: {e}")
        if not isinstance(r, S.Table):
            continue
        want = names + (["extra"] if name == "stack" else (names if name == "stack-table" else []))
        if list(r.column_names()) != want:
            dup = "repeated-names" if len(set(names)) < len(names) else "distinct-names"
            return ctx.fail(f"structure/{name}/names/{dup}/{'no-rows' if len(t) == 0 else 'rows'}", f"{names} ({len(t)} rows) -> {r.column_names()}")
    # a single named vector of the same length: every selection keeps its name
    v = S.Vector([(i * 3) % 7 for i in range(len(t))], name="vname")
    if len(v):
        for what, f in (("index-list", lambda: v[[0, len(v) - 1]]), ("index-vector", lambda: v[S.Vector([0, len(v) - 1])]), ("slice", lambda: v[::2]),
                        ("mask", lambda: v[[i % 3 == 0 for i in range(len(v))]]), ("sort", lambda: v.sort_by(reverse=case["rev"])), ("copy", lambda: v.copy())):
            ctx.ev()
            r = f()
            if isinstance(r, S.Vector) and not isinstance(r, S.Table) and r.name != "vname":
                return ctx.fail(f"structure/vector-{what}/name-lost/{'long' if len(v) > 1000 else 'short'}", f"{len(v)} elements: name {r.name!r}")
    # joins keep left names followed by right names
    if 0 < len(t) <= 100 and t.cols()[0].schema() is not None:
        ctx.ev()
        try:
            j = t.inner_join(t, t.cols()[0], t.cols()[0], expect="many_to_many")
        except S.SerifTypeError:
            j = None
        if j is not None and len(j) and list(j.column_names()) != names + names:
            return ctx.fail("structure/join/names", f"{names} join {names} -> {j.column_names()}")
    if len(set(names)) < len(names) or n == 0:
        ctx.nontrivial()
    ctx.label("zero_rows", int(len(t) == 0))
    ctx.label("repeated_names", int(len(set(names)) < len(names)))


# ---------------------------------------------------------------- aggregate / window output names
def _agg_bases(name):
    if name is None:
        return ["col"]
    b = ref_sanitise(name)
    if b is None:
        return ["col"]
    # the sanitised column name is the accessor the table advertises for it (C17): a base that would shadow a public
    # attribute, or that looks like an indexed accessor, carries a trailing underscore - and keeps it in front of _<function>
    if is_reserved(b) or re.match(r"^.+__\d+$", b):
        return [b + "_"]
    return [b]


def _matches(out, base):
    return out == base or (out.startswith(base) and out[len(base):].isdigit())


def run_aggnames(case, ctx):
    t, over, vspecs, _ = R.realise_group(case)
    over_arg, kw = R.group_call_args(case, over, vspecs, lambda vals: len(vals))
    nk = len(case["keys"])
    # expected key names: the name of each key column / vector, 'key' when unnamed
    key_names = []
    for spec in over:
        nm = spec if isinstance(spec, str) else spec.name
        key_names.append(nm if nm else "key")
    # expected aggregate bases
    expected = []
    for f in ("sum", "mean", "min", "max", "count", "stdev"):
        for j in case["aggs"].get(f, []):
            spec = vspecs[j]
            nm = spec if isinstance(spec, str) else spec.name
            expected.append([f"{b}_{f}" for b in _agg_bases(nm)])
    for name, _j in case["apply"]:
        expected.append([name])
    for meth in ("aggregate", "window"):
        ctx.ev()
        try:
            r = getattr(t, meth)(over=over_arg, **kw)
        except Exception:  # noqa: BLE001
            return
        names = list(r.column_names())
        if len(names) != nk + len(expected):
            return ctx.fail(f"{meth}-names/count", f"{names} for keys {key_names} + {expected}")
        if len(set(names)) != len(names):
            return ctx.fail(f"{meth}-names/not-unique", f"{names} (keys {key_names}, aggregates {expected})")
        for i, kn in enumerate(key_names):
            if not _matches(names[i], kn):
                return ctx.fail(f"{meth}-names/key", f"output {i} is {names[i]!r}, key name {kn!r}")
            if names[i] != kn and kn not in names[:i]:
                return ctx.fail(f"{meth}-names/key-renamed-without-need", f"output {i} is {names[i]!r}, key name {kn!r}")
        # perfect matching between the remaining outputs and the expected bases
        outs = names[nk:]
        adj = [[o for o in range(len(outs)) if any(_matches(outs[o], b) for b in bases)] for bases in expected]
        match = {}

        def augment(u, seen):
            for o in adj[u]:
                if o in seen:
                    continue
                seen.add(o)
                if o not in match or augment(match[o], seen):
                    match[o] = u
                    return True
            return False

        if not all(augment(u, set()) for u in range(len(expected))):
            return ctx.fail(f"{meth}-names/aggregate-names", f"outputs {outs} do not match <sanitised>_<function> bases {expected}")
    flat = [b[0] for b in expected]
    if len(set(flat)) < len(flat) or any(k in flat for k in key_names) or len(set(key_names)) < len(key_names):
        ctx.nontrivial()
        ctx.label("duplicate_bases")


def parts(tier):
    mx = 30 if tier == "quick" else 60
    return [
        Part("history", run_history, strategy=lambda t: W.program(min_steps=10, max_steps=mx, classes=["construct", "derive", "write", "view", "rename"],
                                                                        always=("construct", "derive", "write", "view")),
             examples=(2500, 48000), shards=(8, 16), floors={"deep_ruled": 0.1}),
        Part("arith", run_arith, strategy=lambda t: arith_case(t), examples=(1500, 40000), shards=(2, 16)),
        Part("structure", run_struct, strategy=lambda t: struct_case(t), examples=(1500, 40000), shards=(2, 16),
             floors={"zero_rows": 0.2, "repeated_names": 0.2}),
        Part("aggnames", run_aggnames, strategy=lambda t: R.group_case(t), examples=(2000, 60000), shards=(4, 16),
             floors={"duplicate_bases": 0.05}),
    ]
