"""C19 — CSV ingestion is faithful to the file."""
import csv
import io
import os

from hypothesis import strategies as st

from harness.loader import load, VERIF_DIR
from harness.runner import Part
from harness.refmodel import freeze, ref_dtype, same

S = load()

PROPERTY = "C19"
LEVEL_TEXT = "Round-trip exploration (generated cell texts -> csv.writer -> read_csv) and text fuzzing (Hypothesis; atheris in the thorough tier) with csv.reader as lexing reference and the statement's cell rule as oracle."
LEVEL_NOTE = 'If csv.reader raises csv.Error any exception from read_csv is accepted.'
DESIGN_REF = "DESIGN.md §5 C19"
ENGINE = "fuzz"
TECHNIQUE = "round-trip property-based testing (generated cell texts -> csv.writer -> read_csv -> compare with the cell-level reference) + text fuzzing (Hypothesis; atheris coverage-guided campaign in the thorough tier) with csv.reader as lexing reference"
RULE = ("round trip: generated header cells (verbatim, repeats, empty, padded) and records of cell texts (ints, floats, 1_000, +5, "
        "1e3, inf, nan, 0x10, padded, blank, empty, unicode digits, text with delimiters / quotes / CR / LF), jagged record lengths, "
        "delimiter in , ; tab |, has_header both ways, \\n and \\r\\n terminators, StringIO and path inputs; fuzz: arbitrary text. "
        "Non-trivial = a quoted cell containing delimiter/quote/newline, or a jagged record, or a column whose first cell is empty; "
        "distinct = case encoding.")
ASSUMPTIONS = [
    "lexing reference is Python's csv.reader with the same delimiter (\"as the csv module defines them\"); if it raises csv.Error any exception from read_csv is accepted",
    "a header (or, without header, a first record) with zero cells gives a table without columns; row counts are asserted only when there is at least one column",
    "for header-only / empty input the statement promises an empty table: asserted as 'no exception, len == 0, and if columns are reported their names are the header cells'",
]

NUMS = ["0", "1", "-4", "+5", "12", "1_000", "1e3", "1.5", "-2.25", ".5", "5.", "inf", "-inf", "nan", "Infinity", "0x10", "1,5",
        "١٢", "1e400", "007", "--1", "1 2", "9" * 310, "-" + "9" * 330, "1" + "0" * 308]
TEXTS = ["a", "b", "x y", "N/A", "None", "true", "é", "a,b", "a;b", 'q"t', '""', "line\nbreak", "cr\rlf", "tab\there", "pipe|d",
         "'", "end\r\n", " ", "\x0b"]
BLANKS = ["", " ", "  ", "\t", " \t "]

cell = st.one_of(
    st.sampled_from(NUMS), st.sampled_from(NUMS), st.sampled_from(TEXTS), st.sampled_from(BLANKS),
    st.sampled_from(NUMS).map(lambda s: f" {s} "), st.sampled_from(TEXTS).map(lambda s: f"  {s} "),
    # every character str.strip() removes may pad a cell (tab, vertical tab, form feed, FS/GS/RS/US, NBSP, other Unicode spaces)
    st.tuples(st.sampled_from(NUMS + ["ab"]), st.sampled_from(["\t", "\x0b", "\x0c", "\x1c", "\x1d", "\x1e", "\x1f", "\xa0", "\u2003", "\u3000"]),
              st.sampled_from(["pre", "post", "both"])).map(lambda t: (t[1] if t[2] != "post" else "") + t[0] + (t[1] if t[2] != "pre" else "")),
    st.text(max_size=6), st.integers(-10 ** 6, 10 ** 6).map(str), st.floats(allow_nan=False, allow_infinity=False).map(repr),
)
header_cell = st.one_of(st.sampled_from(["a", "b", "a", "", " a ", "A", "price ($)", "x,y", "col_0", 'q"', "1"]), st.text(max_size=5))


@st.composite
def csv_case(draw, tier="quick"):
    has_header = draw(st.booleans())
    ncols = draw(st.integers(1, 4))
    header = draw(st.lists(header_cell, min_size=ncols, max_size=ncols)) if has_header else None
    nrec = draw(st.one_of(st.integers(0, 6), st.integers(1, 4)))
    recs = []
    for i in range(nrec):
        mode = draw(st.sampled_from(["full", "full", "full", "short", "long", "empty"]))
        ln = {"full": ncols, "short": draw(st.integers(0, ncols)), "long": ncols + draw(st.integers(1, 2)), "empty": 0}[mode]
        if not has_header and i == 0:
            ln = ncols            # the first record defines the columns of a header-less file
        recs.append(draw(st.lists(cell, min_size=ln, max_size=ln)))
    if not has_header and not recs:
        recs = [draw(st.lists(cell, min_size=ncols, max_size=ncols))]
    return {"header": header, "recs": recs, "delimiter": draw(st.sampled_from([",", ",", ";", "\t", "|"])),
            "terminator": draw(st.sampled_from(["\n", "\r\n"])), "via": draw(st.sampled_from(["stringio", "stringio", "path"])),
            "quoting": draw(st.sampled_from(["minimal", "minimal", "all"]))}


def parse_cell(text):
    """the statement's rule: None if empty or blank, else int if int() accepts the stripped text, else float, else the stripped string"""
    if text.strip() == "":
        return None
    s = text.strip()
    try:
        return int(s)
    except ValueError:
        pass
    try:
        return float(s)
    except ValueError:
        pass
    return s


def expected_table(rows, has_header):
    """rows: lexed records.  -> (names, columns) or None when the input is empty"""
    if not rows:
        return None
    if has_header:
        header, data = rows[0], rows[1:]
    else:
        header, data = [f"col_{i}" for i in range(len(rows[0]))], rows
    cols = [[(parse_cell(r[j]) if j < len(r) else None) for r in data] for j in range(len(header))]
    return list(header), cols, data


def check_table(ctx, t, rows, has_header, where):
    exp = expected_table(rows, has_header)
    if not isinstance(t, S.Table):
        return ctx.fail(f"{where}/result-not-a-table", f"{type(t).__name__}")
    if exp is None:
        if len(t) != 0:
            return ctx.fail(f"{where}/empty-input-nonempty-table", f"len={len(t)}")
        return False
    names, cols, data = exp
    if not data:
        # header only: an empty table; if columns are reported they are the header cells, verbatim
        if len(t) != 0:
            return ctx.fail(f"{where}/header-only/rows", f"len={len(t)}")
        if len(t.cols()) and list(t.column_names()) != names:
            rep = "repeated-names" if len(set(names)) < len(names) else "names"
            return ctx.fail(f"{where}/header-only/{rep}", f"header {names} -> {t.column_names()}")
        return False
    if list(t.column_names()) != names:
        return ctx.fail(f"{where}/column-names", f"header {names} -> {t.column_names()}")
    if len(t.cols()) != len(names):
        return ctx.fail(f"{where}/column-count", f"{len(t.cols())} for header {names}")
    if not names:
        return False
    if len(t) != len(data):
        return ctx.fail(f"{where}/row-count", f"{len(t)} rows for {len(data)} records")
    for j, want in enumerate(cols):
        got = list(t.cols()[j])
        if len(got) != len(want):
            return ctx.fail(f"{where}/column-length", f"column {j}: {len(got)} vs {len(want)}")
        for i, (g, w) in enumerate(zip(got, want)):
            if not same(g, w):
                raw = data[i][j] if j < len(data[i]) else "<missing>"
                kind = ("padding" if raw == "<missing>" else "blank" if raw.strip() == "" else
                        "int" if isinstance(w, int) else "float" if isinstance(w, float) else "text")
                return ctx.fail(f"{where}/cell/{kind}", f"record {i} column {j}: text {raw!r} -> {g!r}, expected {w!r}")
        sc = t.cols()[j].schema()
        wd = ref_dtype(want)
        if sc is None or (sc.kind, sc.nullable) != wd:
            return ctx.fail(f"{where}/column-dtype", f"column {j} cells {want}: schema {sc}, inference rule gives {wd}")
    return False


def run_roundtrip(case, ctx):
    d = case["delimiter"]
    buf = io.StringIO()
    w = csv.writer(buf, delimiter=d, lineterminator=case["terminator"],
                   quoting=csv.QUOTE_ALL if case["quoting"] == "all" else csv.QUOTE_MINIMAL)
    rows = ([case["header"]] if case["header"] is not None else []) + case["recs"]
    try:
        for r in rows:
            w.writerow(r)
    except csv.Error:
        return
    text = buf.getvalue()
    has_header = case["header"] is not None
    try:
        lexed = list(csv.reader(io.StringIO(text, newline=""), delimiter=d))
    except csv.Error:
        ctx.python_undefined()
        return
    if lexed != [list(r) for r in rows]:
        # csv.writer / csv.reader do not round-trip this text (e.g. a lone \r in an unquoted cell): the reader is the reference
        ctx.label("writer_reader_not_inverse")
    ctx.ev()
    path = None
    try:
        if case["via"] == "path":
            dd = os.path.join(VERIF_DIR, "scratch")
            os.makedirs(dd, exist_ok=True)
            path = os.path.join(dd, f"c19_{os.getpid()}.csv")
            with open(path, "w", encoding="utf-8", newline="") as f:
                f.write(text)
            t = S.read_csv(path, delimiter=d, has_header=has_header)
        else:
            t = S.read_csv(io.StringIO(text, newline=""), delimiter=d, has_header=has_header)
    except Exception as e:  # noqa: BLE001
        which = "empty" if not lexed else ("header-only" if has_header and len(lexed) == 1 else "data")
        return ctx.fail(f"roundtrip/raised/{type(e).__name__}/{which}", f"{text!r}: {e}")
    finally:
        if path and os.path.exists(path):
            os.remove(path)
    if check_table(ctx, t, lexed, has_header, "roundtrip"):
        return
    quoted = any(any(ch in c for ch in (d, '"', "\n", "\r")) for r in rows for c in r)
    jagged = len({len(r) for r in case["recs"]}) > 1
    first_empty = bool(case["recs"]) and any(c.strip() == "" for c in case["recs"][0])
    ctx.label("quoted_special", int(quoted))
    ctx.label("jagged", int(jagged))
    ctx.label("header_only", int(has_header and not case["recs"]))
    ctx.label("repeated_header", int(has_header and len(set(case["header"])) < len(case["header"])))
    if quoted or jagged or first_empty:
        ctx.nontrivial()


# ---------------------------------------------------------------- free text
@st.composite
def text_case(draw, tier="quick"):
    alphabet = st.sampled_from(list('ab1 ,;"\n\r\t|.-e') + ["\r\n", '""', "1.5", "é"])
    text = draw(st.one_of(st.lists(alphabet, max_size=40).map("".join), st.text(max_size=30)))
    return {"text": text, "delimiter": draw(st.sampled_from([",", ";", "\t", "|"])), "has_header": draw(st.booleans())}


def run_text(case, ctx):
    check_text(ctx, case["text"], case["delimiter"], case["has_header"])


def check_text(ctx, text, d, has_header):
    try:
        lexed = list(csv.reader(io.StringIO(text, newline=""), delimiter=d))
        ref_error = None
    except csv.Error as e:
        lexed, ref_error = None, e
    ctx.ev()
    try:
        t = S.read_csv(io.StringIO(text, newline=""), delimiter=d, has_header=has_header)
    except Exception as e:  # noqa: BLE001
        if ref_error is not None:
            return False
        which = "empty" if not lexed else ("header-only" if has_header and len(lexed) == 1 else "data")
        return ctx.fail(f"text/raised/{type(e).__name__}/{which}", f"{text!r} delimiter {d!r} has_header={has_header}: {e}")
    if ref_error is not None:
        return False
    if check_table(ctx, t, lexed, has_header, "text"):
        return True
    if '"' in text or len({len(r) for r in lexed}) > 1:
        ctx.nontrivial()
    return False


def atheris_part(ctx, tier, seed):
    from harness.fuzzdrive import run_campaign
    return run_campaign(ctx, "C19", "fuzz_c19", tier, seed)


def parts(tier):
    ps = [
        Part("roundtrip", run_roundtrip, strategy=lambda t: csv_case(t), examples=(3000, 100000), shards=(6, 16),
             floors={"quoted_special": 0.1, "jagged": 0.2, "header_only": 0.02, "repeated_header": 0.03}),
        Part("text", run_text, strategy=lambda t: text_case(t), examples=(2000, 60000), shards=(4, 16)),
    ]
    if tier == "thorough":
        ps.append(Part("atheris", run_text, custom=atheris_part))
    return ps
