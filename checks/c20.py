"""C20 — repr never fails and never misstates shape, dtype or data."""
import math
import re
from datetime import date

from hypothesis import strategies as st

from harness.loader import load
from harness.runner import Part
from harness import build as B
from harness import values as V
from harness import relational as R
from harness.refmodel import freeze

S = load()

PROPERTY = "C20"
LEVEL_TEXT = 'Exploration: totality of repr over every dtype / length / width / name pattern / set_repr_rows setting, and truth of footer, preview and headers by parsing legible reprs back; atheris campaign in the thorough tier.'
LEVEL_NOTE = 'Preview limit = 2*(n//2); floats compared to 6 significant digits.'
DESIGN_REF = "DESIGN.md §5 C20"
ENGINE = "fuzz"
TECHNIQUE = "property-based testing: totality of repr() over generated vectors/tables of every dtype, length, width, name pattern and set_repr_rows setting; truth of footer / preview / headers by parsing the repr of 'legible' tables back and comparing with the data"
RULE = ("totality: vectors and tables of every kind incl. nan, +-inf, huge/tiny floats, big ints, None, empty, newline strings, bytes, "
        "containers; lengths around 2*(n//2) for set_repr_rows(n), n in {None,0,1,2,3,4,5,12,13,40}; widths 0,1,9,10,11,12,25; every name "
        "pattern; per-table override through peek(). truth: 'legible' tables (int index column + int/float/str/date/bool columns, "
        "identifier names) and vectors are parsed back: footer R x C / element count / dtype(s) with '?', number of body lines, "
        "ellipsis position, head and tail rows, header names. Non-trivial = length within +-2 of the truncation boundary, or width "
        "within +-1 of the column limit, or a non-finite float, or a nullable column; distinct = case encoding.")
ASSUMPTIONS = [
    "the preview limit is 2*(n//2) rows for set_repr_rows(n) (default 12); longer data shows n//2 head rows, one '...' line and n//2 tail rows",
    "cell texts are compared per kind: int exactly, float to 6 significant digits (the %g format), str / ISO date / bool / None exactly",
    "vectors nested inside object vectors are outside the generated domain",
]

ROWS_SETTINGS = [None, 0, 1, 2, 3, 4, 5, 12, 13, 40]


def _h(n):
    return (12 if n is None else n) // 2


weird_floats = st.sampled_from([math.nan, math.inf, -math.inf, 1e308, 5e-324, -0.0, 1.5, 2.0, 1e16, 123456.789, 1e-7])
weird_ints = st.sampled_from([0, -1, 10 ** 30, -(10 ** 100), 10 ** 4000, 7])
weird_strs = st.sampled_from(["", " ", "a\nb", "...", "None", "tab\t", "é" * 3, "x" * 60, "'q'", '"'])


@st.composite
def totality_case(draw, tier="quick"):
    setting = draw(st.sampled_from(ROWS_SETTINGS))
    h = _h(setting)
    length = max(0, 2 * h + draw(st.sampled_from([-2, -1, 0, 1, 2, 3]))) if draw(st.booleans()) else draw(st.integers(0, 8))
    if draw(st.booleans()):
        kind = draw(st.sampled_from(V.ALL_KINDS + ["weird_float", "weird_int", "weird_str", "mixed", "rung_float", "rung_datetime", "rung_complex"]))
        vals = _column(draw, kind, length)
        return {"what": "vector", "setting": setting, "vals": vals, "name": draw(V.any_names), "as_row": draw(st.booleans())}
    width = draw(st.sampled_from([0, 1, 2, 3, 9, 10, 11, 12, 25]))
    if width >= 9:
        length = min(length, 4)
    cols = []
    uniform = draw(st.sampled_from([None, None, "int", "float", "str"]))      # wide tables whose visible columns agree
    odd = draw(st.integers(0, max(0, width - 1)))
    for j in range(width):
        kind = draw(st.sampled_from(["int", "float", "str", "date", "bool", "weird_float", "mixed", "bytes", "weird_str", "complex", "datetime", "rung_float", "rung_datetime", "rung_complex"]))
        if uniform is not None and length:
            if j == odd and draw(st.booleans()):
                col = _column(draw, draw(st.sampled_from(["str", "bool", "date"])), length)
            else:
                col = draw(st.lists(V.SCALARS[uniform], min_size=length, max_size=length))
                if j == odd:
                    col[0] = None                    # same kind, but nullable
            cols.append((draw(V.any_names), col))
            continue
        cols.append((draw(V.any_names), _column(draw, kind, length)))
    return {"what": "table", "setting": setting, "cols": cols, "peek": draw(st.integers(0, 5)) == 0}


def _column(draw, kind, n):
    el = {"weird_float": weird_floats, "weird_int": weird_ints, "weird_str": weird_strs,
          "mixed": st.one_of(st.none(), V.any_scalar, weird_floats),
          # one dtype, elements of different rungs (serif keeps raw values): float holding ints / bools, datetime holding dates, complex holding floats
          "rung_float": st.one_of(V.floats, V.ints, st.booleans()), "rung_datetime": st.one_of(V.datetimes, V.dates),
          "rung_complex": st.one_of(V.complexes, V.small_floats, V.small_ints)}.get(kind) or V.SCALARS[kind]
    xs = draw(st.lists(el, min_size=n, max_size=n))
    if kind != "mixed":
        xs = [None if f else x for x, f in zip(xs, draw(V.none_mask(n)))]
    return xs


def _safe_repr(ctx, obj, where, detail):
    try:
        r = repr(obj)
    except Exception as e:  # noqa: BLE001
        return None, ctx.fail(f"totality/{where}/raised/{type(e).__name__}", f"{detail}: {e}")
    if not isinstance(r, str):
        return None, ctx.fail(f"totality/{where}/not-a-string", f"{type(r).__name__}")
    return r, False


def _canary(ctx, setting):
    """after any repr the preview limit in force is still the one that was set: a 50-element vector and a 50-row table are
    elided (or, for limits >= 50, shown in full) exactly as the setting says"""
    h = _h(setting)
    for what, obj in (("vector", S.Vector(list(range(100, 150)))), ("table", S.Table({"c": list(range(100, 150))}))):
        try:
            text = repr(obj)
        except Exception as e:  # noqa: BLE001
            return ctx.fail(f"totality/canary-{what}/raised/{type(e).__name__}", str(e))
        shown = sum(1 for ln in text.splitlines() if re.search(r"\b1[0-4][0-9]\b", ln))
        want = 50 if 50 <= 2 * h else 2 * h
        if shown != want:
            return ctx.fail(f"preview/limit-not-in-force-after-an-earlier-repr/{what}",
                            f"set_repr_rows({setting!r}): a 50-element {what} shows {shown} data lines, the limit says {want}")
    return False


def run_totality(case, ctx):
    try:
        S.set_repr_rows(case["setting"])
        if _totality(case, ctx):
            return
        _canary(ctx, case["setting"])
    finally:
        S.set_repr_rows(None)


def _nonfinite(xs):
    return any(isinstance(x, float) and (x != x or x in (math.inf, -math.inf)) for x in xs)


def _totality(case, ctx):
    h = _h(case["setting"])
    if case["what"] == "vector":
        vals = case["vals"]
        if vals and all(isinstance(x, S.Vector) for x in vals):
            return
        v = S.Vector(list(vals), name=case["name"], as_row=case["as_row"]) if (case["as_row"] or not isinstance(case["name"], str)) \
            else B.vector(vals, name=case["name"])
        snap = ([freeze(x) for x in v], v.name, v.schema())
        fp = v.fingerprint()
        ctx.ev()
        r, failed = _safe_repr(ctx, v, "vector" + ("/nonfinite-float" if _nonfinite(vals) else ""), f"Vector({vals!r}, name={case['name']!r}) rows={case['setting']}")
        if r is None:
            return
        if ([freeze(x) for x in v], v.name, v.schema()) != snap or v.fingerprint() != fp:
            return ctx.fail("totality/vector/changed-by-repr", f"{vals}")
        foot = r.split("\n")[-1]
        if check_vector_footer(ctx, foot, v, vals):
            return
        if abs(len(vals) - 2 * h) <= 2 or _nonfinite(vals) or None in vals:
            ctx.nontrivial()
        return
    cols = case["cols"]
    t = R.build_table(cols) if cols else S.Table()
    snap = R.snapshot_table(t)
    ctx.ev()
    flat = [x for _, c in cols for x in c]
    r, failed = _safe_repr(ctx, t, "table" + ("/nonfinite-float" if _nonfinite(flat) else ""), f"Table({cols!r}) rows={case['setting']}")
    if r is None:
        return
    if R.snapshot_table(t) != snap:
        return ctx.fail("totality/table/changed-by-repr", f"{cols}")
    foot = r.split("\n")[-1]
    n = len(cols[0][1]) if cols else 0
    if check_table_footer(ctx, foot, n, len(cols), t):
        return
    if cols:
        # "without changing the object": a column renamed through its view stays reachable under the new accessor after repr()
        t.cols()[0].name = "zz_renamed"
        ctx.ev()
        r2, failed = _safe_repr(ctx, t, "table-after-rename", "repr after a rename through a column view")
        if r2 is None:
            return
        try:
            ok = t.zz_renamed is t.cols()[0]
        except AttributeError as e:
            return ctx.fail("totality/table/repr-changed-accessor-state", f"after col.name = 'zz_renamed' and repr(t): t.zz_renamed raises {e}")
        if not ok:
            return ctx.fail("totality/table/repr-changed-accessor-state", "t.zz_renamed is not column 0 after repr(t)")
    if case["peek"]:
        ctx.ev()
        try:
            p = t.peek()
        except Exception as e:  # noqa: BLE001
            p = None
            ctx.count("peek_raised")
        if p is not None:
            rp, failed = _safe_repr(ctx, p, "peek", f"peek of {cols!r}")
            if rp is None:
                return
            if len(p.cols()) and check_table_footer(ctx, rp.split("\n")[-1], len(p), len(p.cols()), p):
                return
    if abs(n - 2 * h) <= 2 or abs(len(cols) - 10) <= 1 or _nonfinite(flat) or None in flat:
        ctx.nontrivial()


def _dt_text(schema):
    if schema is None:
        return "object"
    return schema.kind.__name__ + ("?" if schema.nullable else "")


def check_vector_footer(ctx, foot, v, vals):
    if len(vals) == 0:
        if not (foot.startswith("# empty") or re.match(r"^# 0 element vector <", foot)):
            return ctx.fail("footer/vector/empty", f"footer {foot!r} for an empty vector")
        return False
    m = re.match(r"^# (\d+) element vector <(.*)>$", foot)
    if not m:
        return ctx.fail("footer/vector/format", f"footer {foot!r} for {len(vals)} elements")
    if int(m.group(1)) != len(vals):
        return ctx.fail("footer/vector/count", f"footer {foot!r} for {len(vals)} elements")
    if m.group(2) != _dt_text(v.schema()):
        return ctx.fail("footer/vector/dtype", f"footer {foot!r}, schema {v.schema()}")
    return False


def check_table_footer(ctx, foot, nrows, ncols, t):
    m = re.match(r"^# (\d+)×(\d+) table( <(.*)>)?$", foot)
    if not m:
        return ctx.fail("footer/table/format", f"footer {foot!r} for {nrows}x{ncols}")
    if (int(m.group(1)), int(m.group(2))) != (nrows if ncols else 0, ncols):
        return ctx.fail("footer/table/shape", f"footer {foot!r} for {nrows}x{ncols}")
    if ncols == 0:
        return False
    text = m.group(4)
    if text is None:
        return ctx.fail("footer/table/dtype-missing", foot)
    dts = [_dt_text(c.schema()) for c in t.cols()]
    if text == "mixed":
        if len(set(dts)) < 2:
            return ctx.fail("footer/table/mixed-but-uniform", f"{foot!r} for dtypes {dts}")
        return False
    if ", " in text or (len(set(dts)) > 1):
        parts_ = text.split(", ")
        if "..." in parts_:
            i = parts_.index("...")
            head, tail = parts_[:i], parts_[i + 1:]
            if dts[:len(head)] != head or dts[len(dts) - len(tail):] != tail:
                return ctx.fail("footer/table/dtype-list", f"{foot!r} for dtypes {dts}")
        elif parts_ != dts:
            return ctx.fail("footer/table/dtype-list", f"{foot!r} for dtypes {dts}")
        return False
    if dts and text != dts[0]:
        return ctx.fail("footer/table/dtype", f"{foot!r} for dtypes {dts}")
    return False


# ---------------------------------------------------------------- truth on legible data
LEG_NAMES = ["idx", "alpha", "beta", "gamma", "delta", "eps", "zeta", "eta", "theta", "iota", "kappa", "lam", "mu", "nu", "xi",
             "omi", "pi_", "rho", "sig", "tau", "ups", "phi", "chi", "psi", "omega", "aa", "bb"]
leg_el = {
    "int": st.integers(-10 ** 6, 10 ** 6),
    "float": st.one_of(st.sampled_from([0.5, 2.0, -3.25, 1e10, 1e-5, 123456.789, 0.0]), st.floats(-1e6, 1e6, allow_nan=False), weird_floats),
    "str": st.one_of(st.text(alphabet="abcXYZ_-", min_size=1, max_size=6).filter(lambda s: s not in ("None",)),
                     st.sampled_from(["C:\\temp", "a\\b", "it's", 'say"hi"', "q'\"q", "back\\"])),
    "date": V.dates, "bool": st.booleans(),
}


@st.composite
def legible_case(draw, tier="quick"):
    setting = draw(st.sampled_from(ROWS_SETTINGS))
    h = _h(setting)
    length = max(0, 2 * h + draw(st.sampled_from([-2, -1, 0, 1, 2, 3, 7]))) if draw(st.integers(0, 3)) else draw(st.integers(0, 9))
    length = min(length, 60)
    if draw(st.integers(0, 3)) == 0:
        kind = draw(st.sampled_from(list(leg_el)))
        xs = draw(st.lists(leg_el[kind], min_size=length, max_size=length))
        xs = [None if f else x for x, f in zip(xs, draw(V.none_mask(length)))]
        return {"what": "vector", "setting": setting, "kind": kind, "vals": xs, "name": draw(st.sampled_from([None, "alpha", "beta"]))}
    width = draw(st.sampled_from([1, 2, 3, 4, 9, 10, 11, 12, 25]))
    if width > 4:
        length = min(length, 6)
    cols = []
    for j in range(width - 1):
        kind = draw(st.sampled_from(list(leg_el)))
        xs = draw(st.lists(leg_el[kind], min_size=length, max_size=length))
        if draw(st.booleans()):
            xs = [None if f else x for x, f in zip(xs, draw(V.none_mask(length)))]
        cols.append((LEG_NAMES[j + 1], kind, xs))
    own = draw(st.sampled_from([None, None, 0, 1, 2, 3, 4, 200]))
    return {"what": "table", "setting": setting, "n": length, "cols": cols, "own": own}


def _tok_matches(tok, val, kind):
    if val is None:
        return tok == "None"
    if kind == "int":
        return re.fullmatch(r"-?\d+", tok) is not None and int(tok) == val
    if kind == "float":
        try:
            f = float(tok)
        except ValueError:
            return False
        if val != val:
            return f != f
        if val in (math.inf, -math.inf):
            return f == val
        return math.isclose(f, val, rel_tol=1e-5, abs_tol=1e-300) or (f == 0 and abs(val) < 1e-300)
    if kind == "str":
        return tok == val
    if kind == "date":
        return tok == val.isoformat()
    if kind == "bool":
        return tok == str(val)
    return False


def run_legible(case, ctx):
    try:
        S.set_repr_rows(case["setting"])
        _legible(case, ctx)
    finally:
        S.set_repr_rows(None)


def _expected_rows(n, h):
    """indices of the rows a preview must show, None for the ellipsis line"""
    if n > 2 * h:
        return list(range(h)) + [None] + list(range(n - h, n))
    return list(range(n))


def _legible(case, ctx):
    h = _h(case["setting"])
    if case["what"] == "vector":
        vals, kind = case["vals"], case["kind"]
        n = len(vals)
        if n == 0 or all(x is None for x in vals):
            return
        v = B.vector(vals, name=case["name"]) if isinstance(case["name"], str) else S.Vector(list(vals), name=case["name"])
        if v.schema().kind is object:
            return
        ctx.ev()
        r, failed = _safe_repr(ctx, v, "vector" + ("/nonfinite-float" if _nonfinite(vals) else ""), f"Vector({vals!r}) rows={case['setting']}")
        if r is None:
            return
        lines = r.split("\n")
        if check_vector_footer(ctx, lines[-1], v, vals):
            return
        if len(lines) < 2 or lines[-2] != "":
            return ctx.fail("layout/vector/no-blank-line-before-footer", r)
        body = lines[:-2]
        if case["name"]:
            if not body or body[0].strip() != case["name"]:
                return ctx.fail("header/vector/name", f"first line {body[:1]} for name {case['name']!r}")
            body = body[1:]
        want = _expected_rows(n, h)
        if len(body) != len(want):
            return ctx.fail(f"preview/vector/line-count/{'truncated' if n > 2 * h else 'full'}/h{min(h, 2)}",
                            f"{len(body)} body lines for {n} elements with rows={case['setting']} (expected {len(want)}): {body}")
        for line, idx in zip(body, want):
            tok = line.strip()
            if idx is None:
                if tok != "...":
                    return ctx.fail("preview/vector/ellipsis", f"line {line!r}")
            elif not _tok_matches(tok, vals[idx], kind):
                return ctx.fail(f"preview/vector/value/{kind}", f"line {line!r} should show element {idx} = {vals[idx]!r}")
        if abs(n - 2 * h) <= 2 or _nonfinite(vals) or None in vals:
            ctx.nontrivial()
        return
    n = case["n"]
    cols = [("idx", "int", list(range(n)))] + [tuple(c) for c in case["cols"]]
    t = R.build_table([(nm, xs) for nm, _, xs in cols])
    if case["own"] is not None:
        t._repr_rows = case["own"]          # the per-table override that peek() uses
        h = case["own"] // 2
    kinds = []
    for (nm, kind, xs), c in zip(cols, t.cols()):
        sc = c.schema()
        kinds.append(kind if (sc is not None and sc.kind.__name__ == kind) else None)
    ctx.ev()
    flat = [x for _, _, c in cols for x in c]
    r, failed = _safe_repr(ctx, t, "table" + ("/nonfinite-float" if _nonfinite(flat) else ""), f"legible table {cols!r} rows={case['setting']} own={case['own']}")
    if r is None:
        return
    lines = r.split("\n")
    if check_table_footer(ctx, lines[-1], n, len(cols), t):
        return
    if len(lines) < 3 or lines[-2] != "":
        return ctx.fail("layout/table/no-blank-line-before-footer", r)
    width = len(cols)
    shown = list(range(width)) if width <= 10 else list(range(5)) + [None] + list(range(width - 5, width))
    rows = [ln.split() for ln in lines[:-2]]
    if any(len(rw) != len(shown) for rw in rows):
        return ctx.fail("layout/table/token-count", f"expected {len(shown)} tokens per line: {lines[:-2]}")
    # header: names, then optionally [dtype] row
    exp_names = ["..." if j is None else cols[j][0] for j in shown]
    if rows[0] != exp_names:
        return ctx.fail("header/table/names", f"{rows[0]} vs {exp_names}")
    body = rows[1:]
    dts = [_dt_text(c.schema()) for c in t.cols()]
    if body and body[0][0].startswith("["):
        exp = ["..." if j is None else f"[{dts[j]}]" for j in shown]
        if body[0] != exp:
            return ctx.fail("header/table/dtype-row", f"{body[0]} vs {exp}")
        body = body[1:]
    elif lines[-1].endswith("<mixed>"):
        return ctx.fail("header/table/mixed-without-dtype-row", r)
    want = _expected_rows(n, h)
    if len(body) != len(want):
        return ctx.fail(f"preview/table/line-count/{'truncated' if n > 2 * h else 'full'}/h{min(h, 2)}",
                        f"{len(body)} body lines for {n} rows, rows={case['setting']} own={case['own']} (expected {len(want)})")
    for toks, idx in zip(body, want):
        if idx is None:
            if any(tk != "..." for tk in toks):
                return ctx.fail("preview/table/ellipsis", f"{toks}")
            continue
        for tk, j in zip(toks, shown):
            if j is None:
                if tk != "...":
                    return ctx.fail("preview/table/column-ellipsis", f"{toks}")
                continue
            if kinds[j] is None:
                continue
            if not _tok_matches(tk, cols[j][2][idx], kinds[j]):
                which = "index-column" if j == 0 else kinds[j]
                return ctx.fail(f"preview/table/cell/{which}", f"line {toks}: column {cols[j][0]} should show row {idx} = {cols[j][2][idx]!r}")
    ctx.label("truncated_rows", int(n > 2 * h))
    ctx.label("truncated_cols", int(width > 10))
    if abs(n - 2 * h) <= 2 or abs(width - 10) <= 1 or _nonfinite(flat) or None in flat:
        ctx.nontrivial()


def atheris_part(ctx, tier, seed):
    from harness.fuzzdrive import run_campaign
    return run_campaign(ctx, "C20", "fuzz_c20", tier, seed)


def parts(tier):
    ps = [
        Part("totality", run_totality, strategy=lambda t: totality_case(t), examples=(3000, 100000), shards=(6, 16)),
        Part("legible", run_legible, strategy=lambda t: legible_case(t), examples=(3000, 100000), shards=(6, 16),
             floors={"truncated_rows": 0.15, "truncated_cols": 0.1}),
    ]
    if tier == "thorough":
        ps.append(Part("atheris", run_totality, custom=atheris_part))
    return ps
