"""Boilerplate shared by the atheris targets: import serif from $VERIF_REPO/src under coverage instrumentation,
build the check context, and turn an oracle failure into an artifact the parent check can replay."""
import os
import sys

VERIF_DIR = os.path.dirname(os.path.dirname(os.path.abspath(__file__)))
sys.path.insert(0, VERIF_DIR)
sys.path.append(os.path.join(VERIF_DIR, ".deps"))
SRC = os.path.join(os.environ.get("VERIF_REPO", "/repo"), "src")
sys.path.insert(0, SRC)
sys.dont_write_bytecode = True

import atheris  # noqa: E402

with atheris.instrument_imports(include=["serif"]):
    import serif  # noqa: F401,E402

from harness.loader import load  # noqa: E402
from harness.runner import Ctx, Violation, load_known  # noqa: E402
from harness import codec  # noqa: E402

load()


def make_ctx(prop):
    known, _ = load_known(prop)
    return Ctx(prop, "thorough", known)


def report(ctx, v):
    out = os.environ.get("VERIF_FUZZ_OUT")
    if out:
        with open(os.path.join(out, "violation.case"), "w", encoding="utf-8", errors="surrogatepass") as f:
            f.write(f"{v.tag}\n{' '.join(str(v.detail).split())[:600]}\n{ctx.text()}\n")
    sys.stderr.write(f"FUZZ-VIOLATION {v.tag}\n")
    sys.stderr.flush()
    os._exit(77)


def main(test_one_input):
    atheris.Setup(sys.argv, test_one_input)
    atheris.Fuzz()
