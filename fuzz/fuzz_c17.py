#!/venv/bin/python
"""atheris target for C17: bytes -> list of column names -> the accessor invariant."""
import os
import sys
sys.path.insert(0, os.path.dirname(os.path.abspath(__file__)))
from common import atheris, make_ctx, report, main, Violation  # noqa: E402
from checks import c17  # noqa: E402
from harness import relational as R  # noqa: E402

ctx = make_ctx("C17")


def TestOneInput(data):
    fdp = atheris.FuzzedDataProvider(data)
    w = fdp.ConsumeIntInRange(1, 6)
    names = []
    for _ in range(w):
        k = fdp.ConsumeIntInRange(0, 3)
        if k == 0:
            names.append(c17.ALPHABET[fdp.ConsumeIntInRange(0, len(c17.ALPHABET) - 1)])
        elif k == 1:
            names.append(None)
        else:
            names.append(fdp.ConsumeUnicodeNoSurrogates(fdp.ConsumeIntInRange(0, 8)))
    dir_first = fdp.ConsumeBool()
    ctx.begin("random_names", {"names": names, "dir_first": dir_first})
    try:
        t = R.build_table([(nm, [1]) for nm in names])
        c17.check_accessors(ctx, t, names, "static", dir_first=dir_first)
    except Violation as v:
        report(ctx, v)


if __name__ == "__main__":
    main(TestOneInput)
