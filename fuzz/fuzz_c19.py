#!/venv/bin/python
"""atheris target for C19: arbitrary text -> read_csv, oracle = csv.reader lexing + the cell rule (inside the target)."""
import os
import sys
sys.path.insert(0, os.path.dirname(os.path.abspath(__file__)))
from common import atheris, make_ctx, report, main, Violation  # noqa: E402
from checks import c19  # noqa: E402

ctx = make_ctx("C19")


def TestOneInput(data):
    fdp = atheris.FuzzedDataProvider(data)
    d = fdp.PickValueInList([",", ";", "\t", "|"])
    hh = fdp.ConsumeBool()
    text = fdp.ConsumeUnicodeNoSurrogates(fdp.remaining_bytes())
    ctx.begin("text", {"text": text, "delimiter": d, "has_header": hh})
    try:
        c19.check_text(ctx, text, d, hh)
    except Violation as v:
        report(ctx, v)


if __name__ == "__main__":
    main(TestOneInput)
