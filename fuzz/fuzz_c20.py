#!/venv/bin/python
"""atheris target for C20 (totality + footer truth): bytes -> a vector or table of mixed values -> repr."""
import math
import os
import sys
sys.path.insert(0, os.path.dirname(os.path.abspath(__file__)))
from common import atheris, make_ctx, report, main, Violation  # noqa: E402
from checks import c20  # noqa: E402

ctx = make_ctx("C20")
SPECIAL = [None, math.nan, math.inf, -math.inf, 0, -1, 1.5, -0.0, 1e308, 5e-324, "", "a\nb", "...", True, 10 ** 30, b"x", 1j]


def value(fdp):
    k = fdp.ConsumeIntInRange(0, 5)
    if k == 0:
        return SPECIAL[fdp.ConsumeIntInRange(0, len(SPECIAL) - 1)]
    if k == 1:
        return fdp.ConsumeInt(4)
    if k == 2:
        return fdp.ConsumeFloat()
    if k == 3:
        return fdp.ConsumeUnicodeNoSurrogates(fdp.ConsumeIntInRange(0, 6))
    if k == 4:
        return None
    return fdp.ConsumeBool()


def TestOneInput(data):
    fdp = atheris.FuzzedDataProvider(data)
    setting = c20.ROWS_SETTINGS[fdp.ConsumeIntInRange(0, len(c20.ROWS_SETTINGS) - 1)]
    if fdp.ConsumeBool():
        n = fdp.ConsumeIntInRange(0, 16)
        case = {"what": "vector", "setting": setting, "vals": [value(fdp) for _ in range(n)],
                "name": fdp.ConsumeUnicodeNoSurrogates(fdp.ConsumeIntInRange(0, 5)) or None, "as_row": fdp.ConsumeBool()}
    else:
        w = fdp.ConsumeIntInRange(0, 12)
        n = fdp.ConsumeIntInRange(0, 6)
        homog = fdp.ConsumeBool()
        cols = []
        for _ in range(w):
            name = fdp.ConsumeUnicodeNoSurrogates(fdp.ConsumeIntInRange(0, 5)) or None
            if homog:
                k = fdp.ConsumeIntInRange(0, 2)
                col = [[fdp.ConsumeInt(2), fdp.ConsumeFloat(), fdp.ConsumeUnicodeNoSurrogates(3)][k] for _ in range(n)]
            else:
                col = [value(fdp) for _ in range(n)]
            cols.append((name, col))
        case = {"what": "table", "setting": setting, "cols": cols, "peek": False}
    ctx.begin("totality", case)
    try:
        c20.run_totality(case, ctx)
    except Violation as v:
        report(ctx, v)


if __name__ == "__main__":
    main(TestOneInput)
