"""Ways of bringing a vector with given contents into being.

A vector that reached its dtype through an in-place promotion (an int vector that was assigned floats, a date vector that was
assigned datetimes) holds the same elements and reports the same schema as a freshly built one, but its internals (the
type-specific subclass chosen at construction, cached values, registrations) have a different history.  Every statement speaks
about vectors, not about freshly built vectors, so the checks feed both kinds; which one is a deterministic function of the
contents (no extra randomness, the case encoding stays what it was)."""
from datetime import date, datetime

from .loader import load
from .refmodel import freeze

S = load()

_START = {float: 0, complex: 0, datetime: date(2000, 1, 1)}


def wants_promoted(values):
    return (len(values) + sum(1 for x in values if x is None)) % 2 == 1


def vector(values, name=None, promoted=None):
    """-> Vector with exactly these elements; built fresh, or (if `promoted`, default: decided from the contents) as a vector of
    the rung below that is then overwritten element by element. Falls back to the fresh build whenever the promoted one does not
    end up identical in elements and schema (whether promotion works is C08's matter, not this helper's)."""
    values = list(values)
    fresh = S.Vector(list(values), name=name) if name is not None else S.Vector(list(values))
    if promoted is None:
        promoted = wants_promoted(values)
    kinds = {type(x) for x in values if x is not None}
    if not promoted or len(kinds) != 1 or next(iter(kinds)) not in _START or isinstance(fresh, S.Table):
        return fresh
    start = _START[next(iter(kinds))]
    if next(iter(kinds)) is complex and len(values) % 4 >= 2:
        start = 0.0           # complex reached from a float vector (the other half: from an int vector)
    try:
        v = S.Vector([start] * len(values), name=name) if name is not None else S.Vector([start] * len(values))
        for i, x in enumerate(values):
            v[i] = x
        same = [freeze(x) for x in v] == [freeze(x) for x in fresh]
        sa, sb = v.schema(), fresh.schema()
        if not same or sa is None or sb is None or (sa.kind, sa.nullable) != (sb.kind, sb.nullable) or v.name != fresh.name:
            return fresh
    except Exception:  # noqa: BLE001
        return fresh
    return v
