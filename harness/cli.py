import argparse
import os
import sys


def main():
    ap = argparse.ArgumentParser(prog="check")
    ap.add_argument("prop")
    ap.add_argument("--tier", default=os.environ.get("VERIF_TIER", "quick"), choices=["quick", "thorough"])
    ap.add_argument("--seed", type=int, default=None)
    ap.add_argument("--jobs", type=int, default=None)
    ap.add_argument("--replay", default=None)
    a = ap.parse_args()
    seed = a.seed if a.seed is not None else int(os.environ.get("VERIF_SEED", "1") or "1")
    from harness import runner
    try:
        rc = runner.main(a.prop, a.tier, seed, a.jobs, a.replay)
    except KeyboardInterrupt:
        rc = 2
    except Exception as e:  # noqa: BLE001
        import traceback
        traceback.print_exc()
        print(f"HARNESS-ERROR property={a.prop} {type(e).__name__}: {e}")
        rc = 2
    sys.stdout.flush()
    sys.exit(rc)


if __name__ == "__main__":
    main()
