"""case <-> text.  A deterministic, eval-able literal format for generated cases.

Cases are plain Python data (dict / list / tuple / scalars) plus a small set of value classes
(date, datetime, timedelta, Decimal, Fraction, complex, nan/inf, OpaqueA/OpaqueB, slice, range).
Replay files are produced by this harness only; decoding uses eval in a closed namespace.
"""
import math
import hashlib
from datetime import date, datetime, timedelta
from decimal import Decimal
from fractions import Fraction

from .opaque import OpaqueA, OpaqueB, OpaqueSub

_TYPES = {
    bool: "bool", int: "int", float: "float", complex: "complex", str: "str", bytes: "bytes",
    date: "date", datetime: "datetime", object: "object", list: "list", tuple: "tuple", dict: "dict",
    Decimal: "Decimal", Fraction: "Fraction", OpaqueA: "OpaqueA", OpaqueB: "OpaqueB", OpaqueSub: "OpaqueSub",
    timedelta: "timedelta", type(None): "NoneType",
}


def _f(x):
    if x != x:
        return "nan"
    if x == math.inf:
        return "inf"
    if x == -math.inf:
        return "-inf"
    return repr(x)


def encode(o):
    t = type(o)
    if o is None or t is bool or t is int:
        return repr(o)
    if t is float:
        return _f(o)
    if t is complex:
        return f"complex({_f(o.real)}, {_f(o.imag)})"
    if t is str or t is bytes:
        return repr(o)
    if t is list:
        return "[" + ", ".join(encode(x) for x in o) + "]"
    if t is tuple:
        if len(o) == 1:
            return "(" + encode(o[0]) + ",)"
        return "(" + ", ".join(encode(x) for x in o) + ")"
    if t is dict:
        return "{" + ", ".join(encode(k) + ": " + encode(v) for k, v in o.items()) + "}"
    if t is set or t is frozenset:
        inner = ", ".join(sorted(encode(x) for x in o))
        return ("set([" if t is set else "frozenset([") + inner + "])"
    if t is datetime:
        return f"datetime({o.year}, {o.month}, {o.day}, {o.hour}, {o.minute}, {o.second}, {o.microsecond})"
    if t is date:
        return f"date({o.year}, {o.month}, {o.day})"
    if t is timedelta:
        return f"timedelta({o.days}, {o.seconds}, {o.microseconds})"
    if t is Decimal:
        return f"Decimal({str(o)!r})"
    if t is Fraction:
        return f"Fraction({o.numerator}, {o.denominator})"
    if t is OpaqueA or t is OpaqueB or t is OpaqueSub:
        return f"{t.__name__}({encode(o.payload)})"
    if t is slice:
        return f"slice({encode(o.start)}, {encode(o.stop)}, {encode(o.step)})"
    if t is range:
        return f"range({o.start}, {o.stop}, {o.step})"
    if isinstance(o, type) and o in _TYPES:
        return _TYPES[o]
    # subclasses of the scalar types (enum members, bool-like ints) are written by value
    if isinstance(o, int):
        return repr(int(o))
    if isinstance(o, str):
        return repr(str(o))
    raise TypeError(f"codec cannot encode {t.__name__}: {o!r}")


_NS = {
    "nan": math.nan, "inf": math.inf, "complex": complex, "date": date, "datetime": datetime,
    "timedelta": timedelta, "Decimal": Decimal, "Fraction": Fraction, "OpaqueA": OpaqueA,
    "OpaqueB": OpaqueB, "OpaqueSub": OpaqueSub, "slice": slice, "range": range, "set": set, "frozenset": frozenset,
    "True": True, "False": False, "None": None,
    "bool": bool, "int": int, "float": float, "str": str, "bytes": bytes, "object": object,
    "list": list, "tuple": tuple, "dict": dict, "NoneType": type(None),
}


def decode(text):
    return eval(text, {"__builtins__": {}}, dict(_NS))  # noqa: S307 (own files only)


def h64(text):
    return int.from_bytes(hashlib.blake2b(text.encode("utf-8", "surrogatepass"), digest_size=8).digest(), "big")


def hhex(text):
    return hashlib.blake2b(text.encode("utf-8", "surrogatepass"), digest_size=8).hexdigest()


def short(o, n=400):
    s = o if isinstance(o, str) else encode(o)
    return s if len(s) <= n else s[: n - 3] + "..."
