"""Driver for the atheris (libFuzzer) campaigns of the thorough tier: C17, C19, C20.

Two campaigns per run (empty corpus, seed corpus), `-runs=N -seed=VERIF_SEED`, fresh work directories under
/verif/scratch.  The semantic oracle lives inside the fuzz target; on a violation the target writes the decoded
case, which is returned as an ordinary failure (replayable through ./check <ID> --replay)."""
import os
import re
import shutil
import subprocess
import sys

from .loader import VERIF_DIR, HarnessError

RUNS = {"quick": 20000, "thorough": 150000}


def run_campaign(ctx, prop, target, tier, seed, runs=None):
    try:
        sys.path.append(os.path.join(VERIF_DIR, ".deps"))
        import atheris  # noqa: F401
    except Exception:  # noqa: BLE001
        ctx.labels["atheris:unavailable"] += 1
        return []
    runs = runs or int(os.environ.get("VERIF_FUZZ_RUNS", RUNS[tier]))
    failures = []
    script = os.path.join(VERIF_DIR, "fuzz", target + ".py")
    for campaign in ("empty", "seeded"):
        work = os.path.join(VERIF_DIR, "scratch", f"fuzz_{prop}_{campaign}_{os.getpid()}")
        shutil.rmtree(work, ignore_errors=True)
        os.makedirs(os.path.join(work, "corpus"))
        os.makedirs(os.path.join(work, "out"))
        if campaign == "seeded":
            src = os.path.join(VERIF_DIR, "fuzz", "corpus_" + prop.lower())
            for fn in sorted(os.listdir(src)) if os.path.isdir(src) else []:
                shutil.copy(os.path.join(src, fn), os.path.join(work, "corpus", fn))
        env = dict(os.environ, VERIF_FUZZ_OUT=os.path.join(work, "out"), PYTHONDONTWRITEBYTECODE="1", PYTHONHASHSEED="0")
        cmd = [sys.executable, "-W", "ignore", script, f"-runs={runs}", f"-seed={seed % (2 ** 31 - 1) + 1}", "-max_len=256",
               "-max_total_time=600", f"-artifact_prefix={work}/out/", "-print_final_stats=1", os.path.join(work, "corpus")]
        try:
            p = subprocess.run(cmd, capture_output=True, text=True, env=env, cwd=VERIF_DIR, timeout=1200)
        except subprocess.TimeoutExpired:
            shutil.rmtree(work, ignore_errors=True)
            raise HarnessError(f"atheris campaign {prop}/{campaign} timed out")
        err = p.stderr
        m = re.findall(r"stat::number_of_executed_units:\s*(\d+)", err) or re.findall(r"Done (\d+) runs", err)
        n = int(m[-1]) if m else 0
        cov = re.findall(r"cov: (\d+)", err)
        ctx.evals += n
        ctx.examples += n
        ctx.labels[f"atheris:{campaign}_executions"] += n
        if cov:
            ctx.labels[f"atheris:{campaign}_coverage_edges"] = int(cov[-1])
        vf = os.path.join(work, "out", "violation.case")
        if os.path.exists(vf):
            tag, detail, text = open(vf, encoding="utf-8", errors="surrogatepass").read().split("\n", 2)
            failures.append((tag, text.strip(), f"[atheris {campaign} corpus] {detail}"))
        elif p.returncode != 0:
            tail = err[-1500:]
            shutil.rmtree(work, ignore_errors=True)
            raise HarnessError(f"atheris campaign {prop}/{campaign} ended with rc={p.returncode}: {tail}")
        shutil.rmtree(work, ignore_errors=True)
        if failures:
            break
    return failures
