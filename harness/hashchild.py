"""Child process for the PYTHONHASHSEED configuration quantifier (C09, C12).
usage: python -m harness.hashchild <what> <corpus file>; prints a JSON list with one digest per case."""
import json
import sys

from harness import codec
from harness.loader import load

S = load()


def main():
    what, path = sys.argv[1], sys.argv[2]
    from harness import relational as R
    out = []
    for line in open(path, encoding="utf-8", errors="surrogatepass"):
        line = line.rstrip("\n").replace("\\n", "\n")
        if not line:
            continue
        case = codec.decode(line)
        try:
            if what == "join":
                lt, rt, lon, ron, *_ = R.realise(case)
                res = []
                for kind in ("inner_join", "join", "full_join"):
                    try:
                        t = getattr(lt, kind)(rt, lon, ron, expect="many_to_many")
                        res.append((kind, list(t.column_names()), R.frozen_rows(R.cells(t))))
                    except S.SerifTypeError:
                        res.append((kind, "SerifTypeError"))
            else:
                t, over, vspecs, _ = R.realise_group(case)
                over_arg, kw = R.group_call_args(case, over, vspecs)
                res = []
                for meth in ("aggregate", "window"):
                    r = getattr(t, meth)(over=over_arg, **kw)
                    res.append((meth, list(r.column_names()), R.frozen_rows(R.cells(r))))
            out.append(codec.hhex(repr(res)))
        except Exception as e:  # noqa: BLE001
            out.append(f"EXC:{type(e).__name__}")
    print(json.dumps(out))


if __name__ == "__main__":
    main()
