"""Import the code under test from $VERIF_REPO/src (default /repo/src), fresh, without bytecode.

Every process of the harness calls `load()` before touching serif.  The check "rebuilds" the
library simply by importing the current working tree: serif is pure Python.
"""
import os
import sys
import warnings

VERIF_DIR = os.path.dirname(os.path.dirname(os.path.abspath(__file__)))
REPO = os.environ.get("VERIF_REPO", "/repo")
SRC = os.path.join(REPO, "src")

_loaded = None


class HarnessError(Exception):
    """Something is wrong with the machinery (never reported as a violation)."""


def load():
    global _loaded
    if _loaded is not None:
        return _loaded
    sys.dont_write_bytecode = True
    # hooks guard (no source hooks are needed today; the variable is reserved)
    os.environ.setdefault("SERIF_VERIF", "1")
    deps = os.path.join(VERIF_DIR, ".deps")
    if os.path.isdir(deps) and deps not in sys.path:
        sys.path.append(deps)
    if SRC in sys.path:
        sys.path.remove(SRC)
    sys.path.insert(0, SRC)
    already = sys.modules.get("serif")
    if already is not None and os.path.realpath(os.path.dirname(getattr(already, "__file__", "") or "")) == os.path.realpath(os.path.join(SRC, "serif")):
        # (a fuzz target imported the right tree under coverage instrumentation: keep it)
        warnings.simplefilter("ignore")
        _loaded = already
        return already
    for m in [m for m in sys.modules if m == "serif" or m.startswith("serif.")]:
        del sys.modules[m]
    warnings.simplefilter("ignore")
    import serif  # noqa
    here = os.path.realpath(os.path.dirname(serif.__file__))
    want = os.path.realpath(os.path.join(SRC, "serif"))
    if here != want:
        raise HarnessError(f"serif imported from {here}, expected {want}")
    _loaded = serif
    return serif
