"""The C03 predicate: a vector's reported dtype is truthful (static form + operational form)."""
from .loader import load
from .refmodel import belongs

S = load()


def untruthful(v, operational=True):
    """-> None if the vector's schema is truthful, else (tag, detail)"""
    if isinstance(v, S.Table):
        for i, c in enumerate(v.cols()):
            r = untruthful(c, operational)
            if r:
                return (r[0], f"column {i}: {r[1]}")
        return None
    try:
        vals = list(v)
    except Exception:  # noqa: BLE001
        return None
    if any(isinstance(x, S.Vector) for x in vals):
        return None                      # nested vectors: outside the domain
    sc = v.schema()
    if sc is None:
        if len(vals):
            return ("no-schema-on-nonempty-vector", f"{vals!r} reports no schema")
        return None
    for i, x in enumerate(vals):
        if x is None:
            if not sc.nullable:
                return ("none-in-non-nullable", f"{vals!r} reports {sc!r} but element {i} is None")
        elif not belongs(x, sc.kind):
            return ("element-outside-kind",
                    f"{vals!r} reports {sc!r} but element {i} is {x!r} ({type(x).__name__})")
    if operational and vals:
        # writing an element back into its own position is accepted and never changes the dtype
        try:
            w = S.Vector(list(vals), dtype=sc, name=v.name)
        except Exception:  # noqa: BLE001
            return None
        for i in sorted({0, len(vals) // 2, len(vals) - 1}):
            try:
                w[i] = vals[i]
            except S.AliasError:
                return None
            except Exception as e:  # noqa: BLE001
                return ("write-back-rejected", f"{vals!r} [{sc!r}]: v[{i}] = v[{i}] raised {type(e).__name__}: {e}")
            s2 = w.schema()
            if s2 is None or s2.kind is not sc.kind or s2.nullable != sc.nullable:
                return ("write-back-changed-dtype", f"{vals!r} [{sc!r}]: after v[{i}] = v[{i}] the schema is {s2!r}")
    return None
