"""Two 'arbitrary other classes' for object columns: hashable, equal by payload, not orderable."""


class _Opaque:
    __slots__ = ("payload",)

    def __init__(self, payload=0):
        self.payload = payload

    def __eq__(self, other):
        return type(other) is type(self) and other.payload == self.payload

    def __ne__(self, other):
        return not self.__eq__(other)

    def __hash__(self):
        return hash((type(self).__name__, self.payload))

    def __repr__(self):
        return f"{type(self).__name__}({self.payload!r})"


class OpaqueA(_Opaque):
    __slots__ = ()


class OpaqueB(_Opaque):
    __slots__ = ()


class OpaqueSub(OpaqueA):
    """a subclass of OpaqueA: another kind all the same (kinds are exact types; only the documented ladders widen)"""
    __slots__ = ()
