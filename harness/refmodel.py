"""Reference models written from the property statements (never from serif's code).

dtype lattice, value equality, list-semantics helpers, relational join / group-by references.
"""
import math
from datetime import date, datetime

NUM = [bool, int, float, complex]
TMP = [date, datetime]


# ------------------------------------------------------------------ dtype lattice
def join_kind(a, b):
    """least upper bound of two kinds: ladders bool<int<float<complex and date<datetime,
    identical kinds stay, anything else -> object"""
    if a is b:
        return a
    if a in NUM and b in NUM:
        return NUM[max(NUM.index(a), NUM.index(b))]
    if a in TMP and b in TMP:
        return datetime
    return object


def leq_kind(a, b):
    """a <= b in the lattice order"""
    return join_kind(a, b) is b


def ref_dtype(values):
    """-> (kind, nullable) for a non-empty sequence; all-None -> (object, True)"""
    kind = None
    nullable = False
    for v in values:
        if v is None:
            nullable = True
            continue
        k = type(v)
        kind = k if kind is None else join_kind(kind, k)
    if kind is None:
        return (object, True)
    return (kind, nullable)


def belongs(x, kind):
    """a non-None value belongs to a column kind: exact type, or below it on a documented ladder,
    anything belongs to object"""
    if kind is object:
        return True
    t = type(x)
    if t is kind:
        return True
    if kind in NUM and t in NUM:
        return NUM.index(t) <= NUM.index(kind)
    if kind in TMP and t in TMP:
        return TMP.index(t) <= TMP.index(kind)
    # subclass instances (IntEnum in an int column, str subclasses) count as members
    try:
        return isinstance(x, kind)
    except TypeError:
        return False


# ------------------------------------------------------------------ value equality
def same(a, b, signed_zero=False):
    """same type and equal; nan equals nan; containers recursively"""
    ta, tb = type(a), type(b)
    if ta is not tb:
        return False
    if ta is float:
        if a != a or b != b:
            return a != a and b != b
        if signed_zero and a == 0.0 and b == 0.0:
            return math.copysign(1.0, a) == math.copysign(1.0, b)
        return a == b
    if ta is complex:
        return same(a.real, b.real, signed_zero) and same(a.imag, b.imag, signed_zero)
    if ta in (list, tuple):
        return len(a) == len(b) and all(same(x, y, signed_zero) for x, y in zip(a, b))
    if ta is dict:
        return list(a.keys()) == list(b.keys()) and all(same(a[k], b[k], signed_zero) for k in a)
    try:
        return bool(a == b)
    except Exception:  # noqa: BLE001
        return a is b


def same_list(xs, ys, signed_zero=False):
    xs, ys = list(xs), list(ys)
    return len(xs) == len(ys) and all(same(x, y, signed_zero) for x, y in zip(xs, ys))


def close(a, b):
    if a is None or b is None:
        return a is None and b is None
    if isinstance(a, complex) or isinstance(b, complex):
        return abs(a - b) <= 1e-9 * max(abs(a), abs(b)) + 1e-12
    if a != a or b != b:
        return a != a and b != b
    return math.isclose(a, b, rel_tol=1e-9, abs_tol=1e-12)


# ------------------------------------------------------------------ freeze: exact, hashable snapshot of a value
def freeze(x):
    t = type(x)
    if x is None:
        return None
    if t is float:
        return ("f", "nan" if x != x else repr(x))
    if t is complex:
        return ("c", freeze(x.real), freeze(x.imag))
    if t is bool or t is int or t is str or t is bytes:
        return (t.__name__, x)
    if t in (list, tuple):
        return (t.__name__,) + tuple(freeze(e) for e in x)
    if t is dict:
        return ("dict",) + tuple((freeze(k), freeze(v)) for k, v in x.items())
    return (t.__name__, repr(x))


# ------------------------------------------------------------------ relational references
def key_eq(a, b):
    """Python tuple equality on key tuples (None == None, True == 1)"""
    return a == b


def ref_inner(lrows, rrows, lkeys, rkeys):
    """-> list of (i, j) pairs ordered by left position then right position"""
    return [(i, j) for i in range(len(lrows)) for j in range(len(rrows)) if key_eq(lkeys[i], rkeys[j])]


def ref_left(lrows, rrows, lkeys, rkeys):
    out = []
    for i in range(len(lrows)):
        m = [(i, j) for j in range(len(rrows)) if key_eq(lkeys[i], rkeys[j])]
        out += m if m else [(i, None)]
    return out


def ref_full(lrows, rrows, lkeys, rkeys):
    out = ref_left(lrows, rrows, lkeys, rkeys)
    matched = {j for _, j in out if j is not None}
    out += [(None, j) for j in range(len(rrows)) if j not in matched]
    return out


def pairs_to_rows(pairs, lrows, rrows, nl, nr):
    rows = []
    for i, j in pairs:
        l = tuple(lrows[i]) if i is not None else (None,) * nl
        r = tuple(rrows[j]) if j is not None else (None,) * nr
        rows.append(l + r)
    return rows


def ref_groups(keys):
    """insertion-ordered partition: -> list of (key_tuple, [row indices]) in first-appearance order.
    Built by hand with == on tuples (no hashing)."""
    groups = []
    for i, k in enumerate(keys):
        for gk, idx in groups:
            if gk == k and _same_none_pattern(gk, k):
                idx.append(i)
                break
        else:
            groups.append((k, [i]))
    return groups


def _same_none_pattern(a, b):
    return all((x is None) == (y is None) for x, y in zip(a, b))


def ref_agg(func, vals):
    clean = [v for v in vals if v is not None]
    if func == "sum":
        return sum(clean)
    if func == "count":
        return len(clean)
    if func == "mean":
        return sum(clean) / len(clean) if clean else None
    if func == "min":
        return min(clean) if clean else None
    if func == "max":
        return max(clean) if clean else None
    if func == "stdev":
        n = len(clean)
        if n < 2:
            return None
        m = sum(clean) / n
        return math.sqrt(sum((x - m) * (x - m) for x in clean) / (n - 1))
    raise ValueError(func)
