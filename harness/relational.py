"""Relational engine shared by C09-C13: generators for join / group-by cases, table building,
result extraction and the hash-seed configuration driver."""
import json
import os
import subprocess
import sys
from datetime import date

from fractions import Fraction

from hypothesis import strategies as st

from . import codec
from .loader import load, VERIF_DIR, HarnessError
from .refmodel import freeze, ref_dtype

S = load()

HASH_TWINS = {-1: -2, -2: -1, 0: 2 ** 61 - 1, 2 ** 61 - 1: 0}

KEY_ALPHABETS = {
    # incl. pairs hash() cannot tell apart: -1 / -2, 0 / 2**61-1, 1 / 2**61 (distinct keys all the same)
    # ... and True (== 1, an int column absorbs it): equal keys of different types; the output must carry each row's own cell
    "int": [0, 1, 2, 3, -1, -2, 2 ** 40, 2 ** 61 - 1, 2 ** 61, True],
    "str": ["a", "b", "A", "", "ab", "é"],
    "bool": [True, False],
    "date": [date(2020, 1, 1), date(2020, 1, 2), date(2021, 6, 30), date(1999, 12, 31)],
}
NAMES = ["a", "b", "k", "v", "id", "x y", "K", None]


# ------------------------------------------------------------------------------------------ building / reading
def build_table(cols, derived=True):
    """cols: list of (name, values) -> Table with exactly these names and cells.
    Which way the table comes into being is a deterministic function of the case (no extra randomness): freshly built, a
    copy, a row slice or an all-True mask of a longer / equal table, or stacked with >> - operations under test get
    derived objects as often as fresh ones (their internal flags, caches and registrations differ, their contents do not)."""
    fresh = S.Table([S.Vector(list(vals), name=name) for name, vals in cols])
    n = len(cols[0][1]) if cols else 0
    mode = (sum(len(str(nm)) for nm, _ in cols) + n + len(cols)) % 5 if (derived and cols) else 0
    try:
        if mode == 1:
            t = fresh.copy()
        elif mode == 2 and n >= 1:
            longer = S.Table([S.Vector(list(vals) + [vals[0]], name=name) for name, vals in cols])
            t = longer[0:n]
        elif mode == 3:
            t = fresh[S.Vector([True] * n)] if n else fresh[S.Vector([], dtype=bool)]
        elif mode == 4 and len(cols) >= 2:
            t = S.Vector(list(cols[0][1]), name=cols[0][0])
            for name, vals in cols[1:]:
                t = t >> S.Vector(list(vals), name=name)
        else:
            return fresh
    except Exception:  # noqa: BLE001  (a derivation the library refuses for this shape: the fresh table serves)
        return fresh
    if not isinstance(t, S.Table) or snapshot_table(t) != snapshot_table(fresh):
        return fresh          # (whether derivations preserve names / dtypes / cells is C02 / C07 / C18's matter, not this helper's)
    return t


def cells(t):
    """rows of a table read column-wise (independent of Row): list of tuples"""
    cs = [list(c) for c in t.cols()]
    n = len(cs[0]) if cs else 0
    return [tuple(c[i] for c in cs) for i in range(n)]


def frozen_rows(rows):
    return [tuple(freeze(x) for x in r) for r in rows]


def snapshot_table(t):
    return (tuple(t.column_names()),
            tuple((None if c.schema() is None else (c.schema().kind.__name__, c.schema().nullable)) for c in t.cols()),
            tuple(tuple(freeze(x) for x in c) for c in t.cols()), len(t))


# ------------------------------------------------------------------------------------------ join cases
@st.composite
def key_columns(draw, n_left, n_right, bias=None):
    """1..3 key components; values from an alphabet of size 1..4 (+None) -> (kinds, lkeys, rkeys)
    lkeys/rkeys: list (per component) of lists (per row)"""
    nk = draw(st.sampled_from([1, 1, 1, 2, 2, 3]))
    kinds, lk, rk = [], [], []
    for _ in range(nk):
        kind = draw(st.sampled_from(["int", "int", "str", "bool", "date"]))
        size = draw(st.integers(1, min(4, len(KEY_ALPHABETS[kind]))))
        alpha = draw(st.lists(st.sampled_from(KEY_ALPHABETS[kind]), min_size=size, max_size=size, unique=True))
        with_none = draw(st.sampled_from([False, False, True]))
        la = alpha + ([None] if with_none else [])
        # right alphabet: shared part + possibly an extra value so that unmatched rows exist on both sides
        mode = draw(st.sampled_from(["same", "same", "subset", "shifted"]))
        if mode == "same" or len(alpha) == 1:
            ra = list(la)
        elif mode == "subset":
            ra = la[1:]
        else:
            extra = [v for v in KEY_ALPHABETS[kind] if v not in alpha][:1]
            ra = la[1:] + extra
        if not ra:
            ra = list(la)
        kinds.append(kind)
        lk.append(draw(st.lists(st.sampled_from(la), min_size=n_left, max_size=n_left)))
        rk.append(draw(st.lists(st.sampled_from(ra), min_size=n_right, max_size=n_right)))
    return kinds, lk, rk


@st.composite
def payload(draw, n, max_cols=2):
    m = draw(st.integers(0, max_cols))
    out = []
    for _ in range(m):
        name = draw(st.sampled_from(NAMES))
        vals = draw(st.lists(st.one_of(st.integers(0, 9), st.none(), st.sampled_from(["p", "q"])), min_size=n, max_size=n))
        out.append((name, vals))
    return out


@st.composite
def side(draw, n, keys, tag):
    """one join side -> dict(cols=[(name, values)], specs=[('name', str) | ('own', col index) | ('ext', values)])"""
    cols = list(draw(payload(n)))
    form = draw(st.sampled_from(["name", "name", "own", "ext", "mixed"]))
    specs = []
    used = {nm for nm, _ in cols}
    for kv in keys:
        f = form if form != "mixed" else draw(st.sampled_from(["name", "own", "ext"]))
        if f == "ext":
            # an external key vector may carry a name - also the name of a column the table stores (a derived key such as
            # t.k.fillna(0) keeps the name k): it is the vector that was passed, not its namesake
            nm_ = draw(st.sampled_from([None, None, "k", "id"] + [c_[0] for c_ in cols if isinstance(c_[0], str)]))
            specs.append(("ext", list(kv), nm_))
            continue
        # stored key column whose name is unique among the stored names (a lookup by name denotes
        # exactly this column); placed before, between or after the payload columns
        base = draw(st.sampled_from(["k", "key", "id", "K2", "the key"]))
        name, i = base, 1
        while name in used:
            i += 1
            name = f"{base}{i}"
        used.add(name)
        pos = draw(st.integers(0, len(cols)))
        if f == "own" and draw(st.integers(0, 3)) == 0:
            name = None               # an unnamed key column, given as the table's own column vector
        cols.insert(pos, (name, list(kv)))
        specs = [(s[0], s[1] + 1) if s[0] == "own" and s[1] >= pos else s for s in specs]
        specs.append(("name", name) if f == "name" else ("own", pos))
    if not cols and n > 0:
        # a table without stored columns has no rows: store the first (external) key after all
        cols.append(("k", list(specs[0][1])))
        specs[0] = ("own", 0)
    return {"cols": cols, "specs": specs}


@st.composite
def join_case(draw, tier="quick", max_rows=None):
    mr = max_rows or (6 if tier == "quick" else 12)
    # mostly small sides; about one side in seven is long (9..24 rows: more rows than a small hash table / set holds in order)
    size = st.one_of(st.integers(0, mr), st.integers(1, 4), st.integers(0, mr), st.integers(1, 4), st.integers(0, mr),
                     st.integers(1, 4), st.integers(9, 24))
    nl, nr = draw(size), draw(size)
    kinds, lk, rk = draw(key_columns(nl, nr))
    L = draw(side(nl, lk, "L"))
    R = draw(side(nr, rk, "R"))
    if len(kinds) >= 2 and draw(st.integers(0, 7)) == 0:
        # one column used for two components of the key on one side (left_on=['a', 'a'], right_on=['x', 'y']): the key tuple
        # simply repeats that cell
        sd, ks = (L, lk) if draw(st.booleans()) else (R, rk)
        if sd["specs"][0][0] in ("name", "own") and kinds[0] == kinds[1]:
            sd["specs"][1] = sd["specs"][0]
            sd["repeat"] = True
    as_list = draw(st.booleans())
    return {"kinds": kinds, "L": L, "R": R, "as_list": as_list, "nl": nl, "nr": nr}


def realise(case):
    """-> (Ltable, Rtable, left_on, right_on, lkeys, rkeys) where lkeys/rkeys are per-row key tuples
    Returns None when a side cannot be built (external key on a column-less table with rows)."""
    out = []
    for sd, n in ((case["L"], case["nl"]), (case["R"], case["nr"])):
        cols = sd["cols"]
        if not cols and n > 0:
            return None
        t = build_table(cols)
        on, keycols = [], []
        for kind, val, *extra in sd["specs"]:
            if kind == "name":
                on.append(val)
                keycols.append([v for nm, v in cols if nm == val][0])
            elif kind == "own":
                on.append(t.cols()[val])
                keycols.append(cols[val][1])
            else:
                on.append(S.Vector(list(val), name=extra[0]) if (extra and extra[0] is not None) else S.Vector(list(val)))
                keycols.append(val)
        keys = [tuple(kc[i] for kc in keycols) for i in range(n)]
        if len(on) == 1 and not case["as_list"]:
            on = on[0]
        out.append((t, on, keys, keycols))
    (lt, lon, lkeys, lkc), (rt, ron, rkeys, rkc) = out
    return lt, rt, lon, ron, lkeys, rkeys, lkc, rkc


def refusal_is_legit(lkc, rkc):
    """a join may raise SerifTypeError iff some key pair's lattice kinds differ (both non-empty) or a
    key kind is not joinable"""
    allowed = (int, str, bool, date, object)
    for a, b in zip(lkc, rkc):
        ka = ref_dtype(a)[0] if len(a) else None
        kb = ref_dtype(b)[0] if len(b) else None
        if ka is not None and ka not in allowed:
            return True
        if kb is not None and kb not in allowed:
            return True
        if ka is not None and kb is not None and ka is not kb:
            return True
    return False


def classify_join(lkeys, rkeys):
    """labels used by non-trivial rules"""
    ls, rs = set(), set()
    dl = any(lkeys.count(k) > 1 for k in lkeys)
    dr = any(rkeys.count(k) > 1 for k in rkeys)
    m2m = any(lkeys.count(k) > 1 and rkeys.count(k) > 1 for k in lkeys)
    none_both = any(None in k for k in lkeys) and any(k in rkeys for k in lkeys if None in k)
    partial = False
    if lkeys and len(lkeys[0]) > 1:
        partial = any(a != b and any(x == y for x, y in zip(a, b)) for a in lkeys for b in rkeys)
    unmatched_l = any(k not in rkeys for k in lkeys)
    unmatched_r = any(k not in lkeys for k in rkeys)
    matched = any(k in rkeys for k in lkeys)
    return {"dup_left": dl, "dup_right": dr, "m2m": m2m, "none_both": none_both, "partial": partial,
            "unmatched_l": unmatched_l, "unmatched_r": unmatched_r, "matched": matched}


# ------------------------------------------------------------------------------------------ group-by cases
@st.composite
def group_case(draw, tier="quick"):
    mr = 8 if tier == "quick" else 20
    n = draw(st.one_of(st.integers(0, mr), st.integers(2, 6)))
    nk = draw(st.sampled_from([1, 1, 2, 2, 3]))
    keys = []
    for _ in range(nk):
        kind = draw(st.sampled_from(["int", "str", "bool", "date", "none", "tie", "twin", "cell"]))
        if kind == "none":
            alpha = [None]
        elif kind == "cell":
            # key cells that are tuples themselves (a single key column of tuples is not a composite key)
            alpha = draw(st.lists(st.sampled_from([(1, 2), (3,), (3, 4), (), (1, 2, 3), None]), min_size=2, max_size=4, unique=True))
        elif kind == "tie":
            alpha = draw(st.lists(st.sampled_from([1, 1.0, True, 0, 0.0, False, 2]), min_size=2, max_size=4, unique_by=lambda v: (type(v), v)))
        elif kind == "twin":
            alpha = draw(st.lists(st.sampled_from([-1, -2, 0, 2 ** 61 - 1, 5]), min_size=2, max_size=4, unique=True))
        else:
            size = draw(st.integers(1, min(3, len(KEY_ALPHABETS[kind]))))
            alpha = draw(st.lists(st.sampled_from(KEY_ALPHABETS[kind]), min_size=size, max_size=size, unique=True))
            if draw(st.booleans()):
                alpha = alpha + [None]
        form = draw(st.sampled_from(["name", "own", "ext"]))
        keys.append({"form": form, "values": draw(st.lists(st.sampled_from(alpha), min_size=n, max_size=n))})
    nv = draw(st.integers(1, 3))
    vals = []
    for _ in range(nv):
        kind = draw(st.sampled_from(["int", "int", "float", "bool", "str", "date", "bigint", "bigfloat", "cancel", "hugeint", "bigmix", "fraction"]))
        el = {"int": st.integers(-5, 9), "float": st.sampled_from([0.5, 1.5, -2.0, 3.25, 0.0, 10.0]), "bool": st.booleans(),
              "str": st.sampled_from(["a", "b", "c", ""]), "date": st.sampled_from(KEY_ALPHABETS["date"]),
              "bigint": st.sampled_from([10 ** 8 + 1, 10 ** 8 + 2, 10 ** 8 + 3, 10 ** 8 + 7]),
              "bigfloat": st.sampled_from([1e9 + 0.1, 1e9 + 0.2, 1e9 + 0.3, 1e9 + 0.75]),
              "cancel": st.sampled_from([1e16, 1.0, -1e16, 3.3, 1e100, -1e100, 2.2]),
              # ints no float holds exactly (ids, epoch nanoseconds): exact integer arithmetic is the textbook answer
              "hugeint": st.sampled_from([2 ** 53 + 1, 2 ** 53 + 3, 10 ** 18 + 1, 2 ** 62 - 1, 1, -(2 ** 53) - 1]),
              # a float-typed column that still holds such ints (serif keeps raw values): Python adds ints exactly until a float turns up
              "bigmix": st.sampled_from([2 ** 53 + 1, 1, 0.5, 2 ** 53 + 3, 2.5, 3]),
              # exact rationals in an object column: every textbook aggregate but stdev is exact
              "fraction": st.sampled_from([Fraction(1, 2), Fraction(3), Fraction(-1, 3), Fraction(7, 4)])}[kind]
        mode = draw(st.sampled_from(["no", "some", "some", "all"]))
        xs = draw(st.lists(el, min_size=n, max_size=n))
        if mode == "some":
            m = draw(st.lists(st.booleans(), min_size=n, max_size=n))
            xs = [None if f else x for x, f in zip(xs, m)]
        elif mode == "all":
            xs = [None] * n
        name = draw(st.sampled_from(["v", "w", "amount ($)", "V", "x", "sum", "1st", None, "é", "T", "t", "name"]))
        form = draw(st.sampled_from(["name", "own", "own", "ext"]))
        # an external value vector may carry an explicitly declared (non-nullable) dtype although it holds None:
        # the aggregates are defined over the values, whatever the declaration says
        declared = form == "ext" and kind in ("int", "float") and None in xs and draw(st.booleans())
        vals.append({"kind": kind, "name": name, "form": form, "values": xs, "declared": declared})
    funcs = ["sum", "mean", "min", "max", "stdev", "count"]
    aggs = {}
    numeric = [j for j, v in enumerate(vals) if v["kind"] in NUMERIC]
    for f in draw(st.lists(st.sampled_from(funcs), min_size=0, max_size=6, unique=True)):
        pool = numeric if f in ("sum", "mean", "stdev") else list(range(nv))
        if not pool:
            continue
        aggs[f] = draw(st.lists(st.sampled_from(pool), min_size=1, max_size=2, unique=True))
    apply_ = draw(st.lists(st.tuples(st.sampled_from(["custom", "v_sum", "v_sum2", "my agg", "k", "g2", "v_max2"]), st.integers(0, nv - 1)),
                           max_size=2, unique_by=lambda x: x[0]))
    key_names = draw(st.lists(st.sampled_from(["g", "g", "g2", "G 1", "v_sum", "v_sum2", None, "g22"]), min_size=nk, max_size=nk))
    single = draw(st.booleans())   # pass single specs bare instead of in a list
    return {"n": n, "keys": keys, "vals": vals, "aggs": aggs, "apply": apply_, "single": single, "key_names": key_names}


KEY_NAMES = ["g0", "G 1", "g2"]
NUMERIC = ("int", "float", "bool", "bigint", "bigfloat", "hugeint", "bigmix", "fraction")


def realise_group(case):
    """-> (table, over specs, value specs, key tuples)"""
    n = case["n"]
    cols, kpos, vpos = [], {}, {}
    knames = []
    for i, k in enumerate(case["keys"]):
        nm = (case.get("key_names") or KEY_NAMES)[i]
        if k["form"] == "name" and (nm is None or nm in [c[0] for c in cols]):
            nm = f"key{i}_"            # a key addressed by name needs a name that denotes it
        knames.append(nm)
        if k["form"] != "ext":
            kpos[i] = len(cols)
            cols.append((nm, k["values"]))
    for j, v in enumerate(case["vals"]):
        if v["form"] != "ext":
            nm = v["name"]
            if v["form"] == "name" and (nm is None or nm in [c[0] for c in cols]):
                nm = f"val{j}"
            vpos[j] = len(cols)
            cols.append((nm, v["values"]))
    if not cols and n > 0:
        cols.append(("filler", [0] * n))
    t = build_table(cols)
    over, vspecs = [], []
    for i, k in enumerate(case["keys"]):
        if k["form"] == "ext":
            over.append(S.Vector(list(k["values"]), name=knames[i]))
        elif k["form"] == "own":
            over.append(t.cols()[kpos[i]])
        else:
            over.append(cols[kpos[i]][0])
    for j, v in enumerate(case["vals"]):
        if v["form"] == "ext":
            if v.get("declared"):
                vspecs.append(S.Vector(list(v["values"]), dtype={"int": int, "float": float}[v["kind"]], name=v["name"]))
            else:
                vspecs.append(S.Vector(list(v["values"]), name=v["name"]))
        elif v["form"] == "own":
            vspecs.append(t.cols()[vpos[j]])
        else:
            vspecs.append(cols[vpos[j]][0])
    key_tuples = [tuple(k["values"][i] for k in case["keys"]) for i in range(n)]
    return t, over, vspecs, key_tuples


def twin_edit(case, t, over):
    """Edit one int key cell to the value hash() cannot tell from it (-1 <-> -2, 0 <-> 2^61-1): in place for stored keys,
    a new vector for external keys.  -> (over2, key_tuples2) or None when no key cell qualifies"""
    for c, k in enumerate(case["keys"]):
        for i, x in enumerate(k["values"]):
            if type(x) is int and x in HASH_TWINS:
                new = HASH_TWINS[x]
                vals2 = list(k["values"])
                vals2[i] = new
                over2 = list(over)
                try:
                    if k["form"] == "ext":
                        over2[c] = S.Vector(vals2, name=over[c].name)
                    else:
                        col = over[c] if not isinstance(over[c], str) else t[over[c]]
                        col[i] = new
                except Exception:  # noqa: BLE001
                    return None
                keys2 = [kk["values"] if j != c else vals2 for j, kk in enumerate(case["keys"])]
                n = case["n"]
                return over2, [tuple(kv[r] for kv in keys2) for r in range(n)]
    return None


def group_call_args(case, over, vspecs, recorder=None, per_name=False):
    """kwargs for aggregate/window built from the case (all requested aggregates + apply).
    Lists of exactly two specs are handed over as tuples in half of the cases (decided by the row count): ('g', 'h') means the
    columns g and h, like ['g', 'h'].  With per_name the recorder is a factory: every apply entry gets its own function."""
    as_tuple = case["n"] % 2 == 1
    over_arg = over[0] if (case["single"] and len(over) == 1) else (tuple(over) if (as_tuple and len(over) == 2) else over)
    kw = {}
    for f, idx in case["aggs"].items():
        specs = [vspecs[j] for j in idx]
        kw[f"{f}_over"] = specs[0] if (case["single"] and len(specs) == 1) else (tuple(specs) if (as_tuple and len(specs) == 2) else specs)
    if case["apply"] and recorder is not None:
        kw["apply"] = {name: (vspecs[j], recorder(name) if per_name else recorder) for name, j in case["apply"]}
    return over_arg, kw


def agg_tolerance(values):
    """relative tolerance for mean/stdev comparisons: 1e-9, relaxed (never beyond 1e-3) for
    large-magnitude data where any two valid algorithms differ by magnitude * epsilon"""
    mx = max([abs(v) for v in values if isinstance(v, (int, float)) and not isinstance(v, bool)] + [1.0])
    return min(1e-3, 1e-9 * mx)


def agg_close(a, b, tol):
    if a is None or b is None:
        return a is None and b is None
    if isinstance(a, complex) or isinstance(b, complex):
        return False
    import math
    return math.isclose(a, b, rel_tol=tol, abs_tol=1e-12)


# ------------------------------------------------------------------------------------------ hash-seed configurations
def run_children(prop, corpus_texts, seeds, what):
    """Execute the corpus in children started with different PYTHONHASHSEED values.
    -> {seed: [result-hash per case]}"""
    d = os.path.join(VERIF_DIR, "scratch")
    os.makedirs(d, exist_ok=True)
    path = os.path.join(d, f"corpus_{prop}_{os.getpid()}.txt")
    with open(path, "w", encoding="utf-8", errors="surrogatepass") as f:
        for t in corpus_texts:
            f.write(t.replace("\n", "\\n") + "\n")
    out = {}
    try:
        procs = {}
        for hs in seeds:
            env = dict(os.environ, PYTHONHASHSEED=str(hs), PYTHONDONTWRITEBYTECODE="1",
                       PYTHONPATH=VERIF_DIR + os.pathsep + os.environ.get("PYTHONPATH", ""))
            procs[hs] = subprocess.Popen([sys.executable, "-W", "ignore", "-m", "harness.hashchild", what, path],
                                         stdout=subprocess.PIPE, stderr=subprocess.PIPE, env=env, cwd=VERIF_DIR)
        for hs, p in procs.items():
            so, se = p.communicate(timeout=600)
            if p.returncode != 0:
                raise HarnessError(f"hash-seed child {hs} failed: {se.decode()[-800:]}")
            out[hs] = json.loads(so.decode())
    finally:
        try:
            os.remove(path)
        except OSError:
            pass
    return out
