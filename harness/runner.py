"""Tiers, seeds, sharding, statistics/evidence, failure pipeline, known findings, replay.

A check module (checks/cNN.py) exposes
    PROPERTY, RULE, ASSUMPTIONS, DESIGN_REF   and   parts(tier) -> [Part, ...]
Every Part turns a *case* (plain data, codec-serialisable) into oracle evaluations through
`run(case, ctx)`; cases come from a Hypothesis strategy (`strategy(tier)`), from a deterministic
enumeration (`enumerate(tier)`, bounded-exhaustive sub-spaces) or from a `custom(ctx, tier, seed)`
driver that produces and runs its own cases (subprocess configurations, atheris campaigns).
"""
import importlib
import json
import os
import sys
import time
import traceback
import gc
from collections import Counter

from . import codec
from .loader import VERIF_DIR, HarnessError, load, SRC

MAX_TAGS = 5
SHRINK_CALL_BUDGET = {"quick": 1500, "thorough": 6000}


class Violation(Exception):
    def __init__(self, tag, detail=""):
        super().__init__(f"{tag}: {detail}")
        self.tag = tag
        self.detail = detail


class AbortShrink(BaseException):
    pass


class Part:
    def __init__(self, name, run, strategy=None, enumerate=None, custom=None,
                 examples=(400, 4000), shards=(4, 16), exhaustive=False, space=None, floors=None):
        self.name = name
        self.run = run
        self.strategy = strategy
        self.enumerate = enumerate
        self.custom = custom
        self.examples = {"quick": examples[0], "thorough": examples[1]}
        self.shards = {"quick": shards[0], "thorough": shards[1]}
        self.exhaustive = exhaustive
        self.space = space          # text describing the enumerated space
        self.floors = floors or {}  # label -> minimal share of this part's examples


# --------------------------------------------------------------------------------------------
# known findings
# --------------------------------------------------------------------------------------------

def load_known(prop):
    """-> (known {tag: text}, fixed [(commit, tag, text)]) for one property."""
    known, fixed = {}, []
    path = os.path.join(VERIF_DIR, "KNOWN_FINDINGS.txt")
    if not os.path.exists(path):
        return known, fixed
    for line in open(path, encoding="utf-8"):
        line = line.strip()
        if not line or line.startswith("#"):
            continue
        head, _, text = line.partition("::")
        f = head.split()
        if len(f) < 3 or f[1] != f"property={prop}":
            continue
        if f[0] == "known:":
            tag = [x for x in f if x.startswith("tag=")][0][4:]
            known[tag] = text.strip()
        elif f[0] == "fixed:":
            tag = [x for x in f if x.startswith("tag=")]
            fixed.append((f[2], tag[0][4:] if tag else "", text.strip()))
    return known, fixed


# --------------------------------------------------------------------------------------------
# per-process context
# --------------------------------------------------------------------------------------------

class Ctx:
    def __init__(self, prop, tier, known, suppressed=()):
        self.prop = prop
        self.tier = tier
        self.known = known
        self.suppressed = set(suppressed)
        self.counting = True
        self.evals = 0
        self.examples = 0
        self.labels = Counter()
        self.nt = set()
        self.first_samples = []
        self.low_samples = {}      # hash -> text (five lowest hashes = deterministic reservoir)
        self.known_hits = Counter()
        self.excluded = 0
        self.undefined = 0
        self.extra = Counter()     # free counters (dtype_untruthful_observed, table_partial_rows, ...)
        self.part = None
        self._case = None
        self._text = None
        self._nt_keys = None
        self._excl = False

    # ---- case life cycle
    def begin(self, part_name, case):
        self.part = part_name
        self._case = case
        self._text = None
        self._nt_keys = None
        self._excl = False

    def text(self):
        if self._text is None:
            self._text = codec.encode({"part": self.part, "case": self._case})
        return self._text

    def end(self):
        if not self.counting:
            return
        self.examples += 1
        self.labels[f"{self.part}:cases"] += 1
        if self._excl:
            self.excluded += 1
        if self._nt_keys:
            text = self.text()
            for k in self._nt_keys:
                h = codec.h64(text if k is None else text + "|" + k)
                self.nt.add(h)
            h = codec.h64(text)
            if len(self.first_samples) < 3:
                self.first_samples.append(codec.short(text, 700))
            if len(self.low_samples) < 5 or h < max(self.low_samples):
                self.low_samples[h] = codec.short(text, 700)
                if len(self.low_samples) > 5:
                    del self.low_samples[max(self.low_samples)]

    # ---- called by oracles
    def ev(self, n=1):
        if self.counting:
            self.evals += n

    def label(self, name, n=1):
        if self.counting:
            self.labels[f"{self.part}:{name}"] += n

    def count(self, name, n=1):
        if self.counting:
            self.extra[name] += n

    def nontrivial(self, key=None):
        if self._nt_keys is None:
            self._nt_keys = set()
        self._nt_keys.add(key)

    def python_undefined(self, n=1):
        if self.counting:
            self.undefined += n

    def fail(self, tag, detail=""):
        """Report a failed oracle.  Returns True (so callers can `return ctx.fail(...)`) when the
        tag is a listed known finding or already reported in this run; raises Violation otherwise."""
        tag = f"{self.prop}/{tag}"
        if tag in self.known:
            if self.counting:
                self.known_hits[tag] += 1
            self._excl = True
            return True
        if tag in self.suppressed:
            self._excl = True
            return True
        raise Violation(tag, detail if isinstance(detail, str) else codec.short(repr(detail), 600))

    # ---- merge
    def export(self):
        return {
            "evals": self.evals, "examples": self.examples, "labels": dict(self.labels),
            "nt": list(self.nt), "first": self.first_samples, "low": dict(self.low_samples),
            "known_hits": dict(self.known_hits), "excluded": self.excluded,
            "undefined": self.undefined, "extra": dict(self.extra),
        }


def _serif_frame(tb):
    """innermost frame of the traceback that lies in the code under test, or None"""
    hit = None
    for fs in traceback.extract_tb(tb):
        if os.path.realpath(fs.filename).startswith(os.path.realpath(SRC)):
            hit = fs
    return hit


def run_case(part, case, ctx):
    """Run one case through the part's oracle; converts an unexpected exception that originates in
    the code under test into a Violation bucketed by (type, innermost serif frame)."""
    ctx.begin(part.name, case)
    try:
        part.run(case, ctx)
    except Violation:
        raise
    except (HarnessError, AbortShrink, KeyboardInterrupt, MemoryError):
        raise
    except RecursionError as e:
        fs = _serif_frame(e.__traceback__)
        if fs is None:
            raise HarnessError("RecursionError in harness: " + repr(e)) from e
        ctx.fail(f"crash/RecursionError/{fs.name}", repr(e)[:300])
    except Exception as e:  # noqa: BLE001
        fs = _serif_frame(e.__traceback__)
        if fs is None:
            raise HarnessError("unexpected exception in harness code:\n" + "".join(
                traceback.format_exception(type(e), e, e.__traceback__))[-3000:]
                + "\ncase=" + codec.short(ctx.text(), 1500)) from e
        ctx.fail(f"crash/{type(e).__name__}/{fs.name}", f"{type(e).__name__}: {e}"[:400])
    finally:
        ctx.end()


# --------------------------------------------------------------------------------------------
# worker: one shard of one part
# --------------------------------------------------------------------------------------------

SHRINK_SECONDS = {"quick": 12.0, "thorough": 120.0}   # shrinking only: a verdict never depends on it


class _ShrinkState:
    def __init__(self):
        self.target = None
        self.best = None       # (len, text)
        self.detail = ""
        self.calls = 0
        self.t0 = None


def _derive(seed, shard, attempt=0):
    return (seed * 1000003 + shard * 7919 + attempt * 104729 + 17) % (2 ** 63)


def _hyp_run(part, ctx, tier, seed, shard, n_examples):
    import hypothesis
    from hypothesis import given, settings, HealthCheck, Verbosity, Phase
    from hypothesis.errors import FailedHealthCheck, Unsatisfiable

    failures = []
    budget = SHRINK_CALL_BUDGET[tier]
    strategy = part.strategy(tier)
    for attempt in range(MAX_TAGS if tier == "thorough" else 3):
        st_ = _ShrinkState()
        ctx.counting = True

        def body(case):
            try:
                run_case(part, case, ctx)
            except Violation as v:
                ctx.counting = False
                if st_.target is None:
                    st_.target = v.tag
                if v.tag != st_.target:
                    return          # a different root cause: not this round
                text = ctx.text()
                key = (len(text), text)
                if st_.best is None or key < st_.best:
                    st_.best = key
                    st_.detail = v.detail
                st_.calls += 1
                if st_.t0 is None:
                    st_.t0 = time.time()
                    _arm_shrink(tier)
                    if len(text) > 20000:
                        raise AbortShrink()      # a very large example: report it as it is
                if st_.calls > budget or time.time() - st_.t0 > SHRINK_SECONDS[tier]:
                    raise AbortShrink()
                raise

        test = hypothesis.seed(_derive(seed, shard, attempt))(
            settings(max_examples=max(1, n_examples), deadline=None, database=None, derandomize=False,
                     report_multiple_bugs=False, verbosity=Verbosity.quiet,
                     phases=[Phase.generate, Phase.shrink],
                     suppress_health_check=[HealthCheck.too_slow, HealthCheck.data_too_large,
                                            HealthCheck.large_base_example])(
                given(strategy)(body)))
        try:
            test()
            _end_shrink()
            break
        except AbortShrink:
            _end_shrink()
        except Violation:
            _end_shrink()
        except (FailedHealthCheck, Unsatisfiable) as e:
            _end_shrink()
            raise HarnessError(f"generator health check failed in part {part.name}: {e}") from e
        except HarnessError:
            _end_shrink()
            raise
        except Exception as e:  # Flaky etc.
            _end_shrink()
            if st_.best is None:
                raise HarnessError(f"hypothesis error in part {part.name}: {type(e).__name__}: {e}") from e
        if st_.best is None:
            raise HarnessError("violation without recorded case")
        failures.append((st_.target, st_.best[1], st_.detail))
        ctx.suppressed.add(st_.target)
    ctx.counting = True
    return failures


def _enum_run(part, ctx, tier, shard, nshards):
    failures = []
    for i, case in enumerate(part.enumerate(tier)):
        if i % nshards != shard:
            continue
        try:
            run_case(part, case, ctx)
        except Violation as v:
            failures.append((v.tag, ctx.text(), v.detail))
            ctx.suppressed.add(v.tag)
            if len(failures) >= MAX_TAGS:
                break
    return failures


WALL_BUDGET = {"quick": 600, "thorough": 4 * 3600}


_ALARM = {"mode": "wall", "wall_end": None}


def _on_alarm(signum, frame):
    if _ALARM["mode"] == "shrink":
        # shrinking took too long (possibly inside the shrinker itself, on a large example): keep the best case seen so far
        _ALARM["mode"] = "wall"
        _rearm_wall()
        raise AbortShrink()
    raise HarnessError("wall-clock budget overrun (inconclusive, not a violation)")


def _rearm_wall():
    import signal
    if _ALARM["wall_end"] is not None:
        signal.alarm(max(1, int(_ALARM["wall_end"] - time.time())))


def _end_shrink():
    if _ALARM["mode"] == "shrink":
        _ALARM["mode"] = "wall"
        _rearm_wall()


def _arm_shrink(tier):
    import signal
    if _ALARM["wall_end"] is not None:
        _ALARM["mode"] = "shrink"
        signal.alarm(int(SHRINK_SECONDS[tier]) + 2)


def worker(args):
    prop, part_name, tier, seed, shard, nshards, n_examples = args
    t0 = time.time()
    try:
        import signal
        signal.signal(signal.SIGALRM, _on_alarm)
        budget = int(os.environ.get("VERIF_WALL_BUDGET", WALL_BUDGET[tier]))
        _ALARM["wall_end"] = time.time() + budget
        _ALARM["mode"] = "wall"
        signal.alarm(budget)
        load()
        mod = importlib.import_module(f"checks.{prop.lower()}")
        part = {p.name: p for p in mod.parts(tier)}[part_name]
        known, _ = load_known(prop)
        ctx = Ctx(prop, tier, known)
        gc.collect()
        if part.strategy is not None:
            failures = _hyp_run(part, ctx, tier, seed, shard, n_examples)
        elif part.enumerate is not None:
            failures = _enum_run(part, ctx, tier, shard, nshards)
        else:
            ctx.begin(part.name, None)
            failures = part.custom(ctx, tier, _derive(seed, shard)) or []
        out = ctx.export()
        out.update(part=part_name, shard=shard, failures=failures, wall=time.time() - t0, error=None)
        return out
    except HarnessError as e:
        return {"part": part_name, "shard": shard, "error": f"HarnessError: {e}", "failures": []}
    except BaseException as e:  # noqa: BLE001
        return {"part": part_name, "shard": shard, "failures": [],
                "error": "".join(traceback.format_exception(type(e), e, e.__traceback__))[-4000:]}


# --------------------------------------------------------------------------------------------
# parent: orchestrate, merge, report
# --------------------------------------------------------------------------------------------

def _replay_path(prop, tag, text):
    d = os.path.join(VERIF_DIR, "replays", prop)
    os.makedirs(d, exist_ok=True)
    return os.path.join(d, codec.hhex(tag + "\n" + text) + ".case")


def write_replay(prop, tag, text, detail):
    path = _replay_path(prop, tag, text)
    with open(path, "w", encoding="utf-8", errors="surrogatepass") as f:
        f.write(f"# property={prop}\n# tag={tag}\n# detail={' '.join(str(detail).split())[:600]}\n")
        f.write(f"# replay: ./check {prop} --replay {path}\n")
        f.write(text + "\n")
    return path


def read_case(path):
    lines = [l for l in open(path, encoding="utf-8", errors="surrogatepass").read().split("\n")
             if l.strip() and not l.startswith("#")]
    return codec.decode("\n".join(lines))


def replay_file(prop, path, tier="quick"):
    """-> list of (tag, detail) produced by the saved case (empty = property holds on it)"""
    load()
    mod = importlib.import_module(f"checks.{prop.lower()}")
    d = read_case(path)
    part = {p.name: p for p in mod.parts(tier)}[d["part"]]
    known, _ = load_known(prop)
    ctx = Ctx(prop, tier, known)
    out = []
    reps = getattr(mod, "REPLAY_REPEATS", 1)
    for _ in range(reps):
        try:
            run_case(part, d["case"], ctx)
        except Violation as v:
            out.append((v.tag, v.detail))
            break
    return out, ctx


def main(prop, tier="quick", seed=1, jobs=None, replay=None):
    t0 = time.time()
    prop = prop.upper()
    jobs = jobs or int(os.environ.get("VERIF_JOBS", "16"))
    try:
        load()
        mod = importlib.import_module(f"checks.{prop.lower()}")
    except Exception as e:  # noqa: BLE001
        print(f"HARNESS-ERROR property={prop} import failed: {type(e).__name__}: {e}")
        traceback.print_exc()
        return 2

    if replay:
        try:
            res, ctx = replay_file(prop, replay, tier)
        except HarnessError as e:
            print(f"HARNESS-ERROR property={prop} {e}")
            return 2
        for tag, n in ctx.known_hits.items():
            print(f"KNOWN-FINDING: property={prop} {tag} :: {ctx.known[tag]}")
        if res:
            for tag, detail in res:
                print(f"VIOLATION property={prop} replay={replay}")
                print(f"  tag={tag}\n  detail={detail}")
            return 1
        print(f"OK property={prop} replay={replay} (case passes)")
        return 0

    known, fixed = load_known(prop)
    parts = mod.parts(tier)
    violations = {}   # tag -> (text, detail)
    errors = []
    merged = Ctx(prop, tier, known)
    merged_first = []
    per_part = {}

    # 1. committed regression cases (seconds)
    rdir = os.path.join(VERIF_DIR, "regress", prop)
    n_regress = 0
    if os.path.isdir(rdir):
        pmap = {p.name: p for p in parts}
        rctx = Ctx(prop, tier, known)
        for fn in sorted(os.listdir(rdir)):
            if not fn.endswith(".case"):
                continue
            try:
                d = read_case(os.path.join(rdir, fn))
                part = pmap[d["part"]]
                for _ in range(getattr(mod, "REPLAY_REPEATS", 1)):
                    run_case(part, d["case"], rctx)
                n_regress += 1
            except Violation as v:
                violations.setdefault(v.tag, (rctx.text(), f"[regression case {fn}] {v.detail}"))
            except HarnessError as e:
                errors.append(f"regress {fn}: {e}")
        results = [dict(rctx.export(), part="regress", shard=0, failures=[], error=None, wall=0.0)]
    else:
        results = []

    # 2. generated search
    tasks = []
    for p in parts:
        ns = max(1, min(p.shards[tier], jobs)) if (p.strategy or p.enumerate) else 1
        per = -(-p.examples[tier] // ns)
        for k in range(ns):
            tasks.append((prop, p.name, tier, seed, k, ns, per))
    if jobs <= 1 or len(tasks) == 1:
        results += [worker(t) for t in tasks]
    else:
        import multiprocessing as mp
        from concurrent.futures import ProcessPoolExecutor
        with ProcessPoolExecutor(max_workers=min(jobs, len(tasks)), mp_context=mp.get_context("fork")) as ex:
            results += list(ex.map(worker, tasks))

    # 3. merge
    for r in results:
        if r.get("error"):
            errors.append(f"part {r['part']} shard {r['shard']}: {r['error']}")
            continue
        merged.evals += r["evals"]
        merged.examples += r["examples"]
        merged.labels.update(r["labels"])
        merged.nt.update(r["nt"])
        merged.known_hits.update(r["known_hits"])
        merged.excluded += r["excluded"]
        merged.undefined += r["undefined"]
        merged.extra.update(r["extra"])
        if r["shard"] == 0:
            merged_first += r["first"]
        for h, t in r["low"].items():
            merged.low_samples[int(h)] = t
        pp = per_part.setdefault(r["part"], {"examples": 0, "evaluations": 0, "shards": 0, "wall_s": 0.0})
        pp["examples"] += r["examples"]
        pp["evaluations"] += r["evals"]
        pp["shards"] += 1
        pp["wall_s"] = round(max(pp["wall_s"], r.get("wall", 0.0)), 2)
        for tag, text, detail in r["failures"]:
            if tag not in violations or (len(text), text) < (len(violations[tag][0]), violations[tag][0]):
                violations[tag] = (text, detail)

    # 4. generator floors (a starved essential class is a harness error, not a pass)
    if not violations:
        for p in parts:
            n = merged.labels.get(f"{p.name}:cases", 0)
            for lab, floor in p.floors.items():
                share = merged.labels.get(f"{p.name}:{lab}", 0) / n if n else 0.0
                if share < floor:
                    errors.append(f"generator floor: part {p.name} label {lab} share {share:.4f} < {floor}")

    # 5. evidence
    low = [merged.low_samples[h] for h in sorted(merged.low_samples)[:5]]
    samples = (merged_first[:3] + [s for s in low if s not in merged_first[:3]])[:8]
    spaces = [f"{p.name}: {p.space}" for p in parts if p.exhaustive and p.space]
    cov = {
        "evaluations": merged.evals,
        "distinct_nontrivial": len(merged.nt),
        "rule": mod.RULE,
        "samples": samples,
        "examples": merged.examples,
        "regression_cases_replayed": n_regress,
        "labels": dict(sorted(merged.labels.items())),
        "exhaustive": bool(spaces) and all(p.exhaustive for p in parts),
        "exhaustive_spaces": spaces,
        "known_findings_hit": dict(merged.known_hits),
        "excluded_by_known_finding": merged.excluded,
        "python_undefined_skipped": merged.undefined,
        "counters": dict(sorted(merged.extra.items())),
        "parts": per_part,
        "harness_errors": errors[:5],
        "code_under_test": SRC,
    }
    ev = {
        "property_id": prop, "tier": tier, "seed": int(seed), "level": getattr(mod, "LEVEL", "exploration"),
        "coverage": cov, "assumptions": list(getattr(mod, "ASSUMPTIONS", [])),
        "wall_s": round(time.time() - t0, 2), "violations": len(violations),
    }
    # (runs against a scratch copy of the code - seeded changes, reverted repairs - write their evidence elsewhere)
    evdir = os.environ.get("VERIF_EVIDENCE_DIR") or os.path.join(VERIF_DIR, "evidence")
    os.makedirs(evdir, exist_ok=True)
    with open(os.path.join(evdir, f"{prop}.json"), "w", encoding="utf-8") as f:
        json.dump(ev, f, indent=1, ensure_ascii=True, sort_keys=False)
        f.write("\n")

    # 6. verdict
    for tag in sorted(merged.known_hits):
        print(f"KNOWN-FINDING: property={prop} {tag} :: {known[tag]} (hit {merged.known_hits[tag]}x, excluded from failing)")
    if violations:
        for tag in sorted(violations)[:MAX_TAGS]:
            text, detail = violations[tag]
            path = write_replay(prop, tag, text, detail)
            print(f"VIOLATION property={prop} replay={path}")
            print(f"  tag={tag}")
            print(f"  detail={' '.join(str(detail).split())[:500]}")
            print(f"  case={codec.short(text, 500)}")
        return 1
    if errors:
        for e in errors[:5]:
            print(f"HARNESS-ERROR property={prop} {e}")
        return 2
    print(f"OK property={prop} tier={tier} seed={seed} examples={merged.examples} evaluations={merged.evals} "
          f"distinct_nontrivial={len(merged.nt)} regress={n_regress} wall={time.time() - t0:.1f}s")
    return 0


def draw_corpus(strategy, n, seed):
    """n cases drawn deterministically from a strategy (no shrinking, no assertions)"""
    import hypothesis
    from hypothesis import given, settings, HealthCheck, Verbosity, Phase
    out = []

    def collect(case):
        out.append(case)

    hypothesis.seed(seed)(settings(max_examples=n, deadline=None, database=None, phases=[Phase.generate],
                                   verbosity=Verbosity.quiet, suppress_health_check=list(HealthCheck))(
        given(strategy)(collect)))()
    return out
