"""Value universe and Hypothesis strategies (scalars by kind, typed / mixed columns, names)."""
from datetime import date, datetime, timedelta
from decimal import Decimal
from fractions import Fraction

from hypothesis import strategies as st

from .opaque import OpaqueA, OpaqueB

D0 = date(2020, 2, 28)

small_ints = st.integers(-5, 5)
boundary_ints = st.sampled_from([0, 1, -1, 2, 7, 100, 2 ** 31, -(2 ** 31), 2 ** 59, -(2 ** 59), 10 ** 18])
ints = st.one_of(small_ints, small_ints, small_ints, boundary_ints)
nice_floats = st.sampled_from([0.0, -0.0, 0.5, 1.5, -2.5, 3.0, 1e-3, 1e308, 5e-324, 2.0, -1.0, 0.1])
floats = st.one_of(nice_floats, nice_floats, st.floats(allow_nan=False, allow_infinity=False, width=64))
small_floats = st.sampled_from([0.0, 0.5, 1.5, -2.5, 3.0, 2.0, -1.0, 0.25, 4.0])
complexes = st.builds(complex, small_floats, small_floats)
strs = st.one_of(
    st.text(alphabet="abAB _1", max_size=4),
    st.text(alphabet="abAB _1", max_size=4),
    st.sampled_from(["", " ", "a\nb", "x", "Straße", "é", "a,b", 'q"t', "0", "12", " pad "]),
    st.text(max_size=5),
)
simple_strs = st.text(alphabet="abcAB", min_size=0, max_size=3)
byteses = st.binary(max_size=3)
dates = st.one_of(
    st.sampled_from([D0, date(2020, 3, 1), date(2019, 12, 31), date(2024, 2, 29), date(2000, 1, 1)]),
    st.dates(min_value=date(1990, 1, 1), max_value=date(2035, 12, 31)),
)
datetimes = st.one_of(
    st.sampled_from([datetime(2020, 2, 28, 0, 0), datetime(2020, 2, 28, 12, 30), datetime(1999, 12, 31, 23, 59, 59)]),
    st.datetimes(min_value=datetime(1990, 1, 1), max_value=datetime(2035, 12, 31)),
)
timedeltas = st.one_of(st.sampled_from([timedelta(0), timedelta(days=1), timedelta(days=-1), timedelta(hours=5)]),
                       st.timedeltas(min_value=timedelta(days=-400), max_value=timedelta(days=400)))
decimals = st.sampled_from([Decimal("0"), Decimal("1.5"), Decimal("-2"), Decimal("10")])
fractions = st.sampled_from([Fraction(1, 2), Fraction(3), Fraction(-1, 3)])
opaque_a = st.builds(OpaqueA, st.integers(0, 2))
opaque_b = st.builds(OpaqueB, st.integers(0, 2))
lists_ = st.lists(small_ints, max_size=2)
tuples_ = st.lists(small_ints, max_size=2).map(tuple)
dicts_ = st.dictionaries(st.sampled_from(["k", "j"]), small_ints, max_size=2)

MODERATE = {"bool": st.booleans(), "int": small_ints, "float": small_floats}

SCALARS = {
    "bool": st.booleans(), "int": ints, "float": floats, "complex": complexes, "str": strs,
    "bytes": byteses, "date": dates, "datetime": datetimes, "timedelta": timedeltas,
    "decimal": decimals, "fraction": fractions, "opaque_a": opaque_a, "opaque_b": opaque_b,
    "list": lists_, "tuple": tuples_, "dict": dicts_,
}
KIND_TYPE = {
    "bool": bool, "int": int, "float": float, "complex": complex, "str": str, "bytes": bytes,
    "date": date, "datetime": datetime, "timedelta": timedelta, "decimal": Decimal,
    "fraction": Fraction, "opaque_a": OpaqueA, "opaque_b": OpaqueB, "list": list, "tuple": tuple,
    "dict": dict,
}
BASIC_KINDS = ["bool", "int", "float", "complex", "str", "bytes", "date", "datetime"]
ALL_KINDS = list(SCALARS)


def scalar(kind):
    return SCALARS[kind]


any_scalar = st.one_of(*[SCALARS[k] for k in ALL_KINDS])


@st.composite
def none_mask(draw, n):
    """positions to set to None: empty, all, first explicitly, arbitrary subset"""
    mode = draw(st.sampled_from(["no", "no", "some", "some", "first", "all"]))
    if mode == "no" or n == 0:
        return [False] * n
    if mode == "all":
        return [True] * n
    m = draw(st.lists(st.booleans(), min_size=n, max_size=n))
    if mode == "first":
        m[0] = True
    return m


@st.composite
def column(draw, kind=None, kinds=BASIC_KINDS, min_size=0, max_size=6, nones=True, dup=False, elements=None):
    """a typed column: list of values of one kind (+ None by drawn mask) -> (kind_name, values)"""
    k = kind if kind is not None else draw(st.sampled_from(kinds))
    n = draw(st.integers(min_size, max_size))
    el = elements if elements is not None else SCALARS[k]
    if dup and n:
        alpha = draw(st.lists(el, min_size=1, max_size=3))
        vals = draw(st.lists(st.sampled_from(alpha), min_size=n, max_size=n))
    else:
        vals = draw(st.lists(el, min_size=n, max_size=n))
    if nones:
        m = draw(none_mask(n))
        vals = [None if f else v for v, f in zip(vals, m)]
    return (k, vals)


@st.composite
def mixed_column(draw, min_size=0, max_size=6):
    """object-mixed column: elements of arbitrary kinds and None"""
    n = draw(st.integers(min_size, max_size))
    return draw(st.lists(st.one_of(st.none(), any_scalar), min_size=n, max_size=n))


# ---- names
COLLISION_NAMES = [
    "a", "A", "a_", "a b", "a__1", "a__1_", "col0_", "col1_", "sum", "cols", "T", "t", "class", "1a", "",
    None, "é", "name", "b", "B!", "_b", "b__2", "max", "column_names", "col__1", "x y", "x_y", "x  y",
    "shape", "copy", "__", "0", "a___1", "a.__0", "a_ - _1", "a__01", "x__007", "a__00", "t", "_t", "class", "for",
]
ident_names = st.sampled_from(["a", "b", "c", "x", "y", "k", "val", "key", "n"])
collision_names = st.sampled_from(COLLISION_NAMES)
any_names = st.one_of(collision_names, collision_names, st.text(max_size=6), st.none())
