"""Histories: program (operation-sequence) strategy + interpreter over a pool of live vectors/tables.

A program is a list of steps (op, a, b, c, vals, flag); a/b/c select operands modulo the pool, vals is a
short list of scalars, flag a boolean.  Every program is executable from any state, shrinks as one value and
serialises through codec.  The interpreter executes each step against the real objects and reports a StepInfo
(operands, results, exception, which entries the *model* allows to change) to the hooks of the running check.
"""
import gc
import operator
from datetime import date as _date, datetime as _datetime
import warnings
import weakref

from hypothesis import strategies as st

from .loader import load, HarnessError
from .refmodel import freeze

S = load()

COLNAMES = ["a", "b", "c", "d", "k", "v"]
VNAMES = [None, "a", "b", "x", "total", "a b"]


# ------------------------------------------------------------------------------------------ snapshots
def snap(obj):
    """typed snapshot: contents with type tags, name(s), schema per column, len"""
    if isinstance(obj, S.Table):
        cols = obj.cols()
        return ("T", tuple(c.name for c in cols), tuple(_sch(c) for c in cols),
                tuple(tuple(freeze(x) for x in c) for c in cols), len(obj))
    return ("V", obj.name, _sch(obj), tuple(freeze(x) for x in obj), len(obj))


def _sch(v):
    s = v.schema()
    return None if s is None else (s.kind.__name__, s.nullable)


class Entry:
    __slots__ = ("id", "obj", "typ", "view_of", "origin", "depth", "token", "extra", "__weakref__")

    def __init__(self, id_, obj, typ, origin, view_of=None, depth=0):
        self.id, self.obj, self.typ, self.origin, self.view_of, self.depth = id_, obj, typ, origin, view_of, depth
        self.token = None
        self.extra = {}


class StepInfo:
    def __init__(self, op, kind):
        self.op, self.kind = op, kind
        self.operands, self.results = [], []
        self.exc = None
        self.may_change = set()      # entry ids the model allows to differ after the step
        self.info = {}
        self.skipped = False


class Hooks:
    def start(self, world): pass
    def pre(self, world, step): return None
    def post(self, world, step, si, pre): pass
    def finish(self, world): pass


# ------------------------------------------------------------------------------------------ program strategy
OP_CLASSES = {
    "construct": ["vec_list", "vec_list", "vec_tuple", "table_dict", "table_vecs", "vec_of_vecs", "rshift", "rshift", "lshift",
                  "table_dupnames"],
    "derive": ["copy", "slice", "mask", "index", "select", "rows_cols", "transpose", "sort", "join", "aggregate", "window",
               "math", "compare", "unary", "cast", "fillna", "dropna", "isna", "unique", "proxy", "to_object", "vtranspose", "row_index", "select2d", "select2d"],
    "read": ["repr", "fingerprint", "len_shape", "iterate", "dir", "schema", "reduce"],
    "view": ["col_view", "col_view", "attr_view", "name_view"],
    "write": ["set_int", "set_int", "set_slice", "set_mask", "set_index", "tset_cell", "tset_row", "tset_col", "tset_region",
              "attr_assign", "attr_assign"],
    "rename": ["rename_vec", "alias", "rename_column", "rename_columns"],
    "lifetime": ["drop", "drop_cycle", "gc", "churn", "drop_tuple"],
}
ALL_OPS = sorted({o for v in OP_CLASSES.values() for o in v})

step_vals = st.lists(st.one_of(st.integers(-3, 9), st.integers(-3, 9), st.sampled_from([None, 2.5, "s", True, 1j, float("nan")])), max_size=4)


@st.composite
def program(draw, min_steps=3, max_steps=30, classes=None, always=("construct", "view", "write"), extra_ops=()):
    """swarm testing: each program first draws the set of enabled operation classes"""
    names = list(classes or OP_CLASSES)
    enabled = set(always) | set(draw(st.lists(st.sampled_from(names), min_size=1, max_size=len(names), unique=True)))
    ops = [o for c in names if c in enabled for o in OP_CLASSES[c]] + list(extra_ops)
    step = st.tuples(st.sampled_from(ops), st.integers(0, 40), st.integers(0, 40), st.integers(0, 40), step_vals, st.booleans())
    seed_steps = [("table_dict", 0, 1, 2, [1, 2, 3], False), ("vec_list", 0, 1, 0, [4, 5, 6], True)]
    body = draw(st.lists(step, min_size=min_steps, max_size=max_steps))
    return [list(s) for s in (seed_steps if draw(st.booleans()) else [])] + [list(s) for s in body]


# ------------------------------------------------------------------------------------------ interpreter
class World:
    MAX_POOL = 10

    def __init__(self, hooks=None):
        self.hooks = hooks or Hooks()
        self.entries = []
        self.next_id = 0
        self.next_token = 0
        self.tuples = {}
        self.cycles = []
        self.graveyard = 0
        self.rows = []          # held Row handles (t[i]): (id, row object, typed contents when taken, table entry id)

    # ---- pool
    def add(self, obj, origin, view_of=None, depth=0):
        if isinstance(obj, S.Table):
            typ = "table"
        elif isinstance(obj, S.Vector) and type(obj).__name__ != "Row":
            if any(isinstance(x, S.Vector) for x in obj):
                return None      # a non-table vector of vectors (ragged stacking): outside "vectors and tables"
            typ = "vec"
        else:
            return None
        e = Entry(self.next_id, obj, typ, origin, view_of, depth)
        self.next_id += 1
        if typ == "table":
            e.extra["col_tokens"] = [self.new_token() for _ in obj.cols()]
        self.entries.append(e)
        if len(self.entries) > self.MAX_POOL:
            self.entries.pop(0)
        return e

    def new_token(self):
        self.next_token += 1
        return self.next_token

    def live(self, typ=None):
        return [e for e in self.entries if typ is None or e.typ == typ]

    def pick(self, n, typ=None):
        """operand selection: the upper part of the index range prefers the most recent objects, which makes
        derivation chains (results of results) common instead of exceptional"""
        xs = self.live(typ)
        if not xs:
            return None
        if n >= 24:
            return xs[-1 - (n % min(3, len(xs)))]
        return xs[n % len(xs)]

    def by_id(self, id_):
        for e in self.entries:
            if e.id == id_:
                return e
        return None

    def attached_views(self, table_entry):
        toks = set(table_entry.extra.get("col_tokens", []))
        return [e for e in self.entries if e.view_of and e.view_of[0] == table_entry.id and e.view_of[1] in toks]

    def table_of_view(self, e):
        if not e.view_of:
            return None
        t = self.by_id(e.view_of[0])
        if t is None or e.view_of[1] not in t.extra.get("col_tokens", []):
            return None
        return t

    def write_set(self, e):
        """entries the model allows to change when writing through handle e"""
        ids = {e.id}
        if e.typ == "table":
            ids |= {v.id for v in self.attached_views(e)}
        else:
            t = self.table_of_view(e)
            if t is not None:
                ids.add(t.id)
                ids |= {v.id for v in self.attached_views(t) if v.view_of == e.view_of}
        return ids

    # ---- helpers
    @staticmethod
    def vals(step, n, default=(1, 2, 3)):
        src = list(step[4]) or list(default)
        return [src[i % len(src)] for i in range(n)]

    @staticmethod
    def length_for(k):
        return [3, 3, 1, 2, 0, 1, 3, 4][k % 8]

    def accessor(self, t, i):
        """the accessor serif advertises for column i (read from dir(); names in the world are simple)"""
        names = list(t.column_names())
        nm = names[i]
        if isinstance(nm, str) and nm.isidentifier() and nm == nm.lower() and names.index(nm) == i and not hasattr(S.Table, nm):
            return nm
        if nm is None:
            return f"col{i}_"
        if isinstance(nm, str) and nm.isidentifier() and nm == nm.lower() and names.index(nm) != i and not hasattr(S.Table, nm) \
                and not nm.endswith("_"):
            return f"{nm}__{i}"       # a repeated name: the indexed accessor
        return None

    # ---- run
    def run(self, prog):
        self.hooks.start(self)
        si = pre = None
        for step in prog:
            # nothing of the previous step may keep an evicted / dropped object alive while this step runs
            si = pre = None
            pre = self.hooks.pre(self, step)
            fn = getattr(self, "op_" + step[0])
            si = fn(step)
            if si is None:
                si = StepInfo(step[0], "skip")
                si.skipped = True
            self.hooks.post(self, step, si, pre)
        self.hooks.finish(self)

    def _do(self, si, thunk):
        try:
            return thunk()
        except RecursionError:
            raise
        except Exception as e:  # noqa: BLE001
            # keep the exception, drop its traceback: the frames in it would keep the operands alive in a
            # reference cycle (exception -> traceback -> frame -> si -> exception) that the model knows nothing about
            e.__traceback__ = None
            e.__context__ = None
            e.__cause__ = None
            si.exc = e
            return None

    def _result(self, si, obj, origin, depth=0, view_of=None):
        si.info["result_type"] = type(obj).__name__ if obj is not None else None
        if obj is None:
            return None
        e = self.add(obj, origin, view_of=view_of, depth=depth)
        if e is not None:
            si.results.append(e)
        return e

    # =============================================================== construct
    def op_vec_list(self, step):
        si = StepInfo("vec_list", "construct")
        n = self.length_for(step[1])
        vals = self.vals(step, n)
        if step[3] % 7 == 6:
            vals = [_date(2020, 1, 1 + (i % 27)) for i in range(n)]       # a date vector (date -> datetime promotion path)
            if step[2] % 3 == 0:
                vals = [None if (step[1] >> (i + 3)) & 1 else x for i, x in enumerate(vals)]     # ... with missing days
        name = VNAMES[step[3] % len(VNAMES)]
        si.info.update(values=vals, name=name)
        self._result(si, self._do(si, lambda: S.Vector(list(vals), name=name)), "fresh")
        return si

    def op_vec_tuple(self, step):
        """vectors built over one of a few caller-owned tuples: the only way two vectors share storage"""
        si = StepInfo("vec_tuple", "construct")
        k = step[1] % 2
        if k not in self.tuples:
            n = self.length_for(step[2])
            vals = self.vals(step, n)
            if step[3] % 2 == 1:
                vals = [_date(2024, 1, 1 + (i % 27)) for i in range(n)]
            self.tuples[k] = (tuple(vals), self.new_token())
        tup, tok = self.tuples[k]
        v = self._do(si, lambda: S.Vector(tup))
        e = self._result(si, v, "tuple")
        if e is not None:
            e.token = tok
            si.info["shared_token"] = tok
        return si

    def op_table_dict(self, step):
        si = StepInfo("table_dict", "construct")
        n = self.length_for(step[1])
        k = 1 + step[2] % 3
        names = [COLNAMES[(step[3] + i) % len(COLNAMES)] for i in range(k)]
        cols = {nm: [v if i == 0 else (v if not isinstance(v, int) or isinstance(v, bool) else v + 10 * j) for i, v in enumerate(self.vals(step, n))]
                for j, nm in enumerate(names)}
        if step[3] % 3 == 2 and n:
            # the last column holds days, one of them missing (date -> datetime promotion inside a table)
            cols[names[-1]] = [None if i == step[1] % n else _date(2020, 1, 1 + (i % 27)) for i in range(n)]
            if step[2] % 4 == 3:
                cols[names[-1]] = [None if x is None else _datetime(x.year, x.month, x.day) for x in cols[names[-1]]]
        si.info.update(cols=cols)
        if step[3] % 3 == 1 and n:
            # the first column is handed over as one of the caller-owned tuples (vectors built over it may be alive):
            # the table must own its columns all the same
            kk = step[1] % 2
            if kk not in self.tuples or len(self.tuples[kk][0]) != n:
                self.tuples[kk] = (tuple(cols[names[0]]), self.new_token())
            tup = self.tuples[kk][0]
            cols[names[0]] = list(tup)
            si.info["caller_tuple"] = True
            self._result(si, self._do(si, lambda: S.Table({nm: (tup if nm == names[0] else list(v)) for nm, v in cols.items()})), "fresh")
            return si
        self._result(si, self._do(si, lambda: S.Table({nm: list(v) for nm, v in cols.items()})), "fresh")
        return si

    def op_table_dupnames(self, step):
        """a table whose stored column names repeat (reachable through joins, >> and renames as well): its later columns
        are advertised through indexed accessors"""
        si = StepInfo("table_dupnames", "construct")
        n = self.length_for(step[1])
        names = [["a", "a"], ["a", "b", "a"], ["k", "k", "k"], ["a", None, "a"], ["b", "a", "b", "a"]][step[3] % 5]
        base = self.vals(step, n)
        cols = [[(v + 10 * j) if isinstance(v, int) and not isinstance(v, bool) else v for v in base] for j in range(len(names))]
        si.info.update(names=names, cols=cols)
        self._result(si, self._do(si, lambda: S.Table([S.Vector(list(c), name=nm) for nm, c in zip(names, cols)])), "fresh")
        return si

    def op_table_vecs(self, step):
        vs = self.live("vec")
        if not vs:
            return self.op_vec_list(step)
        si = StepInfo("table_vecs", "construct")
        picks = [vs[(step[1] + i * (1 + step[2])) % len(vs)] for i in range(1 + step[3] % 3)]
        si.operands = picks
        si.info["ragged"] = len({len(p.obj) for p in picks}) > 1
        si.info["sources"] = [snap(p.obj) for p in picks]
        self._result(si, self._do(si, lambda: S.Table([p.obj for p in picks])), "table_vecs", depth=1 + max(p.depth for p in picks))
        return si

    def op_vec_of_vecs(self, step):
        vs = self.live("vec")
        if not vs:
            return self.op_vec_list(step)
        si = StepInfo("vec_of_vecs", "construct")
        picks = [vs[(step[1] + i * (1 + step[2])) % len(vs)] for i in range(1 + step[3] % 3)]
        si.operands = picks
        si.info["ragged"] = len({len(p.obj) for p in picks}) > 1
        si.info["sources"] = [snap(p.obj) for p in picks]
        self._result(si, self._do(si, lambda: S.Vector([p.obj for p in picks])), "vec_of_vecs", depth=1 + max(p.depth for p in picks))
        return si

    def op_rshift(self, step):
        a = self.pick(step[1])
        if a is None:
            return self.op_vec_list(step)
        si = StepInfo("rshift", "construct")
        form = ["vec", "table", "dict", "list"][step[3] % 4]
        n = len(a.obj)
        if form in ("vec", "table"):
            b = self.pick(step[2], form)
            if b is None:
                form = "list"
        if form == "dict":
            wrong = step[5] and step[2] % 4 == 0
            nm = COLNAMES[step[2] % len(COLNAMES)]
            donor = self.pick(step[2], "vec") if step[2] % 2 else None
            if donor is not None and a.typ == "table":
                rhs = {nm: donor.obj}
                si.operands = [a, donor]
                si.info["ragged"] = len(donor.obj) != n
            else:
                vals = self.vals(step, n + (1 if wrong else 0))
                rhs = {nm: vals}
                si.operands = [a]
                si.info["ragged"] = wrong
            if a.typ != "table":
                form = "list"
        if form == "list":
            wrong = step[5] and step[2] % 4 == 0
            rhs = self.vals(step, n + (1 if wrong else 0))
            si.operands = [a]
            si.info["ragged"] = wrong
        elif form in ("vec", "table"):
            rhs = b.obj
            si.operands = [a, b]
            si.info["ragged"] = len(b.obj) != n
        if a.typ == "table" and not a.obj.cols():
            si.info["ragged"] = False        # a table without columns has nothing the new columns could disagree with
        if form == "table" and not rhs.cols():
            si.info["ragged"] = False        # ... and a table without columns adds nothing
        si.info["form"] = form
        si.info["left"] = snap(a.obj)
        si.info["right_cols"] = self._cols_of(rhs, form)
        self._result(si, self._do(si, lambda: a.obj >> rhs), "rshift", depth=1 + a.depth)
        return si

    @staticmethod
    def _cols_of(rhs, form):
        if form == "vec":
            return [list(rhs)]
        if form == "table":
            return [list(c) for c in rhs.cols()]
        if form == "dict":
            return [list(v) for v in rhs.values()]
        return [list(rhs)]

    def op_lshift(self, step):
        a = self.pick(step[1])
        if a is None:
            return self.op_vec_list(step)
        si = StepInfo("lshift", "construct")
        si.operands = [a]
        si.info["left"] = snap(a.obj)
        if a.typ == "table":
            k = len(a.obj.cols())
            if k == 0:
                return None                  # a 0 x 0 table has no columns to append rows to
            form = ["row", "rows", "table", "bad"][step[3] % 4]
            if form == "row":
                rhs = self.vals(step, k)
                si.info["appended"] = [[x] for x in rhs]
            elif form == "rows":
                rhs = [[x, x] for x in self.vals(step, k)]
                si.info["appended"] = [list(r) for r in rhs]
            elif form == "table":
                b = self.pick(step[2], "table")
                if b is None:
                    return None
                rhs = b.obj
                si.operands.append(b)
                si.info["appended"] = [list(c) for c in b.obj.cols()]
                si.info["bad"] = len(b.obj.cols()) != k
            else:
                rhs = self.vals(step, k + 1)
                si.info["bad"] = True
            si.info["form"] = form
        else:
            form = ["vec", "list", "scalar"][step[3] % 3]
            if form == "vec":
                b = self.pick(step[2], "vec")
                if b is None:
                    return None
                rhs = b.obj
                si.operands.append(b)
                si.info["appended"] = [list(b.obj)]
            elif form == "list":
                rhs = self.vals(step, 2)
                si.info["appended"] = [list(rhs)]
            else:
                rhs = self.vals(step, 1)[0]
                if rhs is None or isinstance(rhs, str):
                    rhs = 7
                si.info["appended"] = [[rhs]]
            si.info["form"] = form
        self._result(si, self._do(si, lambda: a.obj << rhs), "lshift", depth=1 + a.depth)
        return si

    # =============================================================== derive
    def _derive(self, name, a, thunk, others=(), depth_plus=1):
        si = StepInfo(name, "derive")
        si.operands = [a] + list(others)
        self._result(si, self._do(si, thunk), name, depth=depth_plus + max([a.depth] + [o.depth for o in others]))
        return si

    def op_copy(self, step):
        a = self.pick(step[1])
        return None if a is None else self._derive("copy", a, lambda: a.obj.copy())

    def op_slice(self, step):
        a = self.pick(step[1])
        if a is None:
            return None
        n = len(a.obj)
        lo, hi = step[2] % (n + 2) - 1, step[3] % (n + 2)
        stp = [None, None, 2, -1, -2, None][step[3] % 6]
        if step[3] % 5 == 0:
            hi = None                      # open-ended (with a negative step: down to the first row)
        elif step[3] % 7 == 0:
            hi = -n - 3                    # far out of range
        key = slice(lo if lo >= 0 else None, hi, stp)
        si = self._derive("slice", a, lambda: a.obj[key])
        si.info["key"] = key
        return si

    def op_mask(self, step):
        a = self.pick(step[1])
        if a is None:
            return None
        n = len(a.obj)
        m = [bool((step[2] >> (i % 5)) & 1) for i in range(n)]
        key = S.Vector(m) if (step[5] and n) else m
        if not n:
            key = S.Vector([], dtype=bool)
        si = self._derive("mask", a, lambda: a.obj[key])
        si.info["mask"] = m
        return si

    def op_index(self, step):
        a = self.pick(step[1], "vec")
        if a is None or not len(a.obj):
            return None
        n = len(a.obj)
        idx = [step[2] % n, step[3] % n]
        si = self._derive("index", a, lambda: a.obj[idx])
        si.info["index"] = idx
        return si

    def op_row_index(self, step):
        """t[i]: the program keeps the row it read (a vector derived by indexing)"""
        a = self.pick(step[1], "table")
        if a is None or not a.obj.cols() or not len(a.obj):
            return None
        n = len(a.obj)
        i = step[2] % n - (n if step[5] else 0)
        si = StepInfo("row_index", "derive")
        si.operands = [a]
        row = self._do(si, lambda: a.obj[i])
        si.info["index"] = i
        if row is not None and type(row).__name__ == "Row":
            by_name = {}
            for j in range(len(a.obj.cols())):
                acc = self.accessor(a.obj, j)
                if acc and "__" not in acc:
                    try:
                        by_name[acc] = freeze(getattr(row, acc))
                    except Exception:  # noqa: BLE001
                        pass
            by_name["<schema>"] = _sch(row)
            self.rows.append((self.new_token(), row, (tuple(freeze(x) for x in row), by_name), a.id))
            del self.rows[:-4]
        return si

    def op_select(self, step):
        a = self.pick(step[1], "table")
        if a is None or not a.obj.cols():
            return None
        names = [nm for nm in a.obj.column_names() if isinstance(nm, str)]
        if not names:
            return None
        sel = tuple(names[(step[2] + i) % len(names)] for i in range(1 + step[3] % 2))
        si = self._derive("select", a, lambda: a.obj[sel])
        si.info["sel"] = sel
        return si

    def op_rows_cols(self, step):
        a = self.pick(step[1], "table")
        if a is None or not a.obj.cols():
            return None
        names = [nm for nm in a.obj.column_names() if isinstance(nm, str)]
        if not names:
            return None
        sel = (names[step[2] % len(names)],)
        n = len(a.obj)
        key = slice(0, max(0, n - 1))
        return self._derive("rows_cols", a, lambda: a.obj[key][sel])

    def op_select2d(self, step):
        """t[rows, cols] in one key: a row slice (all rows, a part, reversed) with one column (by position or name), a column
        slice or a tuple of names - a new vector / table holding exactly those cells"""
        a = self.pick(step[1], "table")
        if a is None or not a.obj.cols():
            return None
        n, k = len(a.obj), len(a.obj.cols())
        rows = [slice(None), slice(0, n), slice(1, max(1, n - 1)), slice(None, None, -1), slice(0, max(0, n - 1)), slice(1, None)][step[2] % 6]
        names = a.obj.column_names()
        c = step[3] % k
        uniq = [nm for nm in names if isinstance(nm, str) and list(names).count(nm) == 1]
        form = ["int", "name", "slice", "names", "int", "name"][step[3] % 6]
        if form in ("name", "names") and not uniq:
            form = "int"
        if form == "int":
            cols, picked = c, [c]
        elif form == "name":
            nm = uniq[c % len(uniq)]
            cols, picked = nm, [list(names).index(nm)]
        elif form == "slice":
            cs = slice(0, 1 + c)
            cols, picked = cs, list(range(k))[cs]
        else:
            sel = tuple(uniq[(c + i) % len(uniq)] for i in range(1 + step[2] % 2))
            cols, picked = sel, [list(names).index(nm) for nm in sel]
        si = self._derive("select2d", a, lambda: a.obj[rows, cols])
        si.info.update(rows=rows, cols=cols, picked=picked, form=form)
        return si

    def op_transpose(self, step):
        a = self.pick(step[1], "table")
        if a is None:
            return None
        si = self._derive("transpose", a, lambda: a.obj.T)
        return si

    def op_sort(self, step):
        a = self.pick(step[1])
        if a is None:
            return None
        if a.typ == "table":
            if not a.obj.cols():
                return None
            i = step[2] % len(a.obj.cols())
            by = a.obj.cols()[i] if step[5] else (a.obj.column_names()[i] if isinstance(a.obj.column_names()[i], str) else a.obj.cols()[i])
            return self._derive("sort", a, lambda: a.obj.sort_by(by, reverse=bool(step[3] % 2)))
        return self._derive("sort", a, lambda: a.obj.sort_by(reverse=bool(step[3] % 2)))

    def op_join(self, step):
        a, b = self.pick(step[1], "table"), self.pick(step[2], "table")
        if a is None or b is None or not a.obj.cols() or not b.obj.cols():
            return None
        kind = ["inner_join", "join", "full_join"][step[3] % 3]
        # mostly the first columns; otherwise any pair (the last columns of the world's tables may hold days / datetimes)
        ka = 0 if step[2] % 3 else (len(a.obj.cols()) - 1)
        kb = 0 if step[3] % 4 else (len(b.obj.cols()) - 1)
        return self._derive("join", a, lambda: getattr(a.obj, kind)(b.obj, a.obj.cols()[ka], b.obj.cols()[kb], expect="many_to_many"), others=[b])

    def _agg(self, name, step):
        a = self.pick(step[1], "table")
        if a is None or not a.obj.cols():
            return None
        cols = a.obj.cols()
        val = cols[step[2] % len(cols)]
        f = ["sum_over", "count_over", "min_over", "max_over"][step[3] % 4]
        return self._derive(name, a, lambda: getattr(a.obj, name)(over=cols[0], **{f: val}))

    def op_aggregate(self, step):
        return self._agg("aggregate", step)

    def op_window(self, step):
        return self._agg("window", step)

    def op_math(self, step):
        a = self.pick(step[1])
        if a is None:
            return None
        op = [operator.add, operator.sub, operator.mul, operator.truediv][step[3] % 4]
        b = self.pick(step[2], a.typ) if step[5] else None
        if b is not None:
            si = self._derive("math", a, lambda: op(a.obj, b.obj), others=[b])
            si.info["form"] = "obj"
            si.info["b_is_a"] = b is a
        else:
            s = self.vals(step, 1)[0]
            if s is None:
                s = 2
            if step[2] % 3 == 0 and a.typ == "vec":
                si = self._derive("math", a, lambda: op(s, a.obj))
                si.info["form"] = "rscalar"
            else:
                si = self._derive("math", a, lambda: op(a.obj, s))
                si.info["form"] = "scalar"
        return si

    def op_compare(self, step):
        a = self.pick(step[1], "vec")
        if a is None:
            return None
        op = [operator.eq, operator.lt, operator.ge, operator.ne][step[3] % 4]
        b = self.pick(step[2], "vec") if step[5] else None
        if b is not None:
            return self._derive("compare", a, lambda: op(a.obj, b.obj), others=[b])
        s = self.vals(step, 1)[0]
        s = 2 if s is None else s
        return self._derive("compare", a, lambda: op(a.obj, s))

    def op_unary(self, step):
        a = self.pick(step[1], "vec")
        if a is None:
            return None
        op = [operator.neg, operator.pos, operator.abs, operator.invert][step[3] % 4]
        return self._derive("unary", a, lambda: op(a.obj))

    def op_cast(self, step):
        a = self.pick(step[1], "vec")
        if a is None:
            return None
        T = [float, str, int, complex][step[3] % 4]
        return self._derive("cast", a, lambda: a.obj.cast(T))

    def op_fillna(self, step):
        a = self.pick(step[1], "vec")
        if a is None:
            return None
        x = self.vals(step, 1)[0]
        return self._derive("fillna", a, lambda: a.obj.fillna(x))

    def op_dropna(self, step):
        a = self.pick(step[1], "vec")
        return None if a is None else self._derive("dropna", a, lambda: a.obj.dropna())

    def op_isna(self, step):
        a = self.pick(step[1], "vec")
        return None if a is None else self._derive("isna", a, lambda: a.obj.isna())

    def op_unique(self, step):
        a = self.pick(step[1], "vec")
        return None if a is None else self._derive("unique", a, lambda: a.obj.unique())

    def op_to_object(self, step):
        a = self.pick(step[1], "vec")
        return None if a is None else self._derive("to_object", a, lambda: a.obj.to_object())

    def op_vtranspose(self, step):
        a = self.pick(step[1], "vec")
        return None if a is None else self._derive("vtranspose", a, lambda: a.obj.T)

    def op_proxy(self, step):
        a = self.pick(step[1], "vec")
        if a is None or a.obj.schema() is None:
            return None
        k = a.obj.schema().kind
        name = {int: "bit_length", str: "upper", float: "is_integer"}.get(k)
        if name is None:
            return None
        return self._derive("proxy", a, lambda: getattr(a.obj, name)())

    # =============================================================== read-only
    def _read(self, name, a, thunk):
        si = StepInfo(name, "read")
        si.operands = [a]
        si.info["value"] = self._do(si, thunk)
        return si

    def op_repr(self, step):
        a = self.pick(step[1])
        return None if a is None else self._read("repr", a, lambda: repr(a.obj))

    def op_fingerprint(self, step):
        a = self.pick(step[1])
        return None if a is None else self._read("fingerprint", a, lambda: a.obj.fingerprint())

    def op_fingerprint_table(self, step):
        a = self.pick(step[1], "table")
        if a is None:
            return None
        si = self._read("fingerprint", a, lambda: a.obj.fingerprint())
        return si

    def op_len_shape(self, step):
        a = self.pick(step[1])
        return None if a is None else self._read("len_shape", a, lambda: (len(a.obj), a.obj.shape))

    def op_iterate(self, step):
        a = self.pick(step[1])
        if a is None:
            return None
        if a.typ == "table":
            return self._read("iterate", a, lambda: [tuple(r) for r in a.obj])
        return self._read("iterate", a, lambda: list(a.obj))

    def op_dir(self, step):
        a = self.pick(step[1])
        return None if a is None else self._read("dir", a, lambda: len(dir(a.obj)))

    def op_schema(self, step):
        a = self.pick(step[1])
        return None if a is None else self._read("schema", a, lambda: a.obj.schema())

    def op_reduce(self, step):
        a = self.pick(step[1], "vec")
        if a is None:
            return None
        f = ["sum", "mean", "min", "max", "any", "all", "stdev"][step[3] % 7]
        return self._read("reduce", a, lambda: getattr(a.obj, f)())

    # =============================================================== live column views
    def _view(self, name, step, getter):
        a = self.pick(step[1], "table")
        if a is None or not a.obj.cols():
            return None
        i = step[2] % len(a.obj.cols())
        si = StepInfo(name, "view")
        si.operands = [a]
        si.info["col"] = i
        obj = self._do(si, lambda: getter(a, i))
        if obj is not None and isinstance(obj, S.Vector) and any(obj is c for c in a.obj.cols()):
            j = [k for k, c in enumerate(a.obj.cols()) if c is obj][0]
            self._result(si, obj, "view", view_of=(a.id, a.extra["col_tokens"][j]), depth=a.depth)
        return si

    def op_col_view(self, step):
        return self._view("col_view", step, lambda a, i: a.obj.cols()[i])

    def op_attr_view(self, step):
        def g(a, i):
            acc = self.accessor(a.obj, i) or f"col{i}_"
            return getattr(a.obj, acc)
        return self._view("attr_view", step, g)

    def op_name_view(self, step):
        def g(a, i):
            nm = a.obj.column_names()[i]
            if not isinstance(nm, str):
                return a.obj.cols()[i]
            return a.obj[nm]
        return self._view("name_view", step, g)

    # =============================================================== writes
    def _assign_value(self, step, m, kind_hint=None):
        """scalar or list of m values taken from the step payload"""
        if kind_hint is _date:
            return ("scalar", _datetime(2021, 2, 3, 4, 5) if step[2] % 2 == 0 else _date(2022, 3, 4))
        if step[3] % 5 == 0 and step[2] % 2 == 0:
            return ("scalar", None)          # None writes are common, not exceptional
        if step[5] or m == 0:
            v = self.vals(step, 1)[0]
            return ("scalar", v)
        return ("list", self.vals(step, m))

    def _vwrite(self, name, step, key_of):
        a = self.pick(step[1], "vec")
        if a is None:
            return None
        n = len(a.obj)
        key, m, positions = key_of(n)
        sc = a.obj.schema()
        form, val = self._assign_value(step, m, sc.kind if sc is not None else None)
        if isinstance(key, int) and form == "list":
            # one position takes one value (a list would become a cell of an object vector: nested data is outside the world)
            form, val = "scalar", (val[0] if val else None)
        if isinstance(key, int) and n and -n <= key < n and step[3] % 6 == 1:
            tw = self._twin(a.obj[key])
            if tw is not None:
                form, val = "scalar", tw       # an equal value of the next rung over the element itself (1 -> 1.0, a day -> its midnight)
        donor = None
        if form == "list" and step[3] % 4 == 2 and m:
            # the new values come as a vector the program holds (a bystander of the write: read, never changed)
            cands = [e for e in self.live("vec") if e is not a and len(e.obj) == m and e.obj is not a.obj]
            if cands:
                donor = cands[step[2] % len(cands)]
                val = donor.obj
        wrong_len = (step[3] % 7 == 0) and form == "list" and donor is None
        if wrong_len:
            val = val + [0]
        elif donor is None and form == "list" and isinstance(key, slice) and m == n and n and step[3] % 2 == 1:
            # every position is overwritten, and the values come as one of the caller-owned tuples (vectors built over it may
            # be alive): the written vector owns its storage all the same
            fits = [tp for tp, _tok in self.tuples.values() if len(tp) == n]
            if fits:
                val = fits[0]
        si = StepInfo(name, "write")
        si.operands = [a]
        si.may_change = self.write_set(a)
        si.info.update(key=key, form=form, value=(list(val) if donor is not None else val), positions=positions, target=a.id, before=snap(a.obj),
                       wrong_len=wrong_len, token_before=a.token)
        if donor is not None:
            si.operands.append(donor)

        def do():
            a.obj[key] = val
            return True
        si.info["ok"] = self._do(si, do) is True
        if si.info["ok"] and a.token is not None:
            a.token = None          # a successful write gives the vector private storage
        return si

    @staticmethod
    def _twin(x):
        if type(x) is bool:
            return int(x)
        if type(x) is int and abs(x) < 2 ** 53:
            return float(x)
        if type(x) is float:
            return complex(x)
        if type(x) is _date:
            return _datetime(x.year, x.month, x.day)
        return None

    def op_set_int(self, step):
        return self._vwrite("set_int", step, lambda n: ((step[2] % (n + 1)) - (1 if step[3] % 3 == 0 else 0), 1,
                                                       None))

    def op_set_slice(self, step):
        def key_of(n):
            lo, hi = step[2] % (n + 1), step[3] % (n + 2)
            k = slice(lo, hi)
            return k, len(range(*k.indices(n))), None
        return self._vwrite("set_slice", step, key_of)

    def op_set_mask(self, step):
        def key_of(n):
            m = [bool((step[2] >> (i % 5)) & 1) for i in range(n)]
            key = S.Vector(m) if (n and step[3] % 2) else (m if n else S.Vector([], dtype=bool))
            return key, sum(m), None
        return self._vwrite("set_mask", step, key_of)

    def op_set_index(self, step):
        holder = {}

        def key_of(n):
            if not n:
                return (0,), 1, None
            idx = [step[2] % n, step[3] % n]
            if step[3] % 5 == 4:
                idx[1] = n + 1                  # a position that does not exist: the whole assignment is refused
            if step[3] % 3 == 2:
                # the positions come as an int vector the program keeps (negative positions included): a bystander of the write
                kv = S.Vector([idx[0] - n, idx[1]])
                holder["vector"] = kv
                holder["values"] = [idx[0] - n, idx[1]]
                return kv, 2, None
            return (idx if step[3] % 2 else tuple(idx)), 2, None
        si = self._vwrite("set_index", step, key_of)
        if si is not None and holder.get("vector") is not None:
            # (pooled after the write: adding it earlier could evict the table the target is a view of in mid-step)
            si.info["key_vector"] = (holder["vector"], list(holder["values"]))
            if len(self.entries) < self.MAX_POOL:
                self.add(holder["vector"], "fresh")        # the program keeps it (never at the price of evicting the target)
        return si

    def _twrite(self, name, step, make):
        a = self.pick(step[1], "table")
        if a is None or not a.obj.cols() or not len(a.obj):
            return None
        si = StepInfo(name, "write")
        si.operands = [a]
        si.may_change = self.write_set(a)
        key, val, extra = make(a.obj)
        if extra:
            si.operands += extra
        si.info.update(key=key, value=val, target=a.id, before=snap(a.obj))

        def do():
            a.obj[key] = val
            return True
        si.info["ok"] = self._do(si, do) is True
        return si

    def op_tset_cell(self, step):
        def make(t):
            r, c = step[2] % len(t), step[3] % len(t.cols())
            nm = t.column_names()[c]
            ck = nm if (step[5] and isinstance(nm, str) and list(t.column_names()).count(nm) == 1 and self.accessor(t, c)) else c
            sc = t.cols()[c].schema()
            if sc is not None and sc.kind is _date and (step[2] + step[3]) % 3:
                return (r, ck), (_datetime(2021, 2, 3, 4, 5) if step[1] % 2 == 0 else _date(2022, 3, 4)), None
            return (r, ck), self.vals(step, 1)[0], None
        return self._twrite("tset_cell", step, make)

    def op_tset_row(self, step):
        def make(t):
            r = step[2] % len(t)
            k = len(t.cols()) + (1 if step[3] % 6 == 0 else 0)
            row = self.vals(step, k)
            for j, c in enumerate(t.cols()):
                sc = c.schema()
                if sc is not None and sc.kind is _date and j < len(row):
                    row[j] = _datetime(2021, 2, 3, 4, 5) if step[1] % 2 == 0 else _date(2022, 3, 4)
            return (r if step[5] else (r, slice(None))), row, None
        return self._twrite("tset_row", step, make)

    def op_tset_col(self, step):
        def make(t):
            c = step[2] % len(t.cols())
            n = len(t) + (1 if step[3] % 6 == 0 else 0)
            fits = [tp for tp, _tok in self.tuples.values() if len(tp) == n]
            if fits and step[3] % 3 == 1:
                return (slice(None), c), fits[0], None          # the column's new cells are handed over as a caller-owned tuple
            return (slice(None), c), self.vals(step, n), None
        return self._twrite("tset_col", step, make)

    def op_tset_region(self, step):
        def make(t):
            r = slice(0, 1 + step[2] % len(t))
            c = slice(0, 1 + step[3] % len(t.cols()))
            return (r, c), self.vals(step, 1)[0], None
        return self._twrite("tset_region", step, make)

    def op_attr_assign(self, step):
        a = self.pick(step[1], "table")
        if a is None or not a.obj.cols():
            return None
        i = step[2] % len(a.obj.cols())
        later = [j for j in range(len(a.obj.cols())) if "__" in (self.accessor(a.obj, j) or "")]
        if later and step[3] % 2 == 0:
            i = later[step[2] % len(later)]        # a repeated name: the column behind an indexed accessor
        acc = self.accessor(a.obj, i)
        if acc is None:
            return None
        donor = self.pick(step[3], "vec") if step[5] else None
        si = StepInfo("attr_assign", "write")
        si.operands = [a] + ([donor] if donor else [])
        if donor is not None:
            val = donor.obj
            si.info["donor"] = donor.id
            si.info["donor_snap"] = snap(donor.obj)
            si.info["ragged"] = len(donor.obj) != len(a.obj)
        else:
            n = len(a.obj) + (1 if step[3] % 5 == 0 else 0)
            val = self.vals(step, n)
            si.info["ragged"] = n != len(a.obj)
            if step[3] % 4 == 1:
                si.info["value"] = list(val)
                val = (x for x in list(val))          # an unsized one-shot iterable
            elif step[3] % 4 == 2:
                # one of the caller-owned tuples (vectors built over it may be alive): the table must still own its column
                fits = [tp for tp, _tok in self.tuples.values() if len(tp) == len(a.obj)]
                if fits:
                    val = fits[0]
                    si.info["value"] = list(val)
                    si.info["ragged"] = False
                    si.info["caller_tuple"] = True
        si.may_change = self.write_set(a)
        si.info.update(col=i, accessor=acc, target=a.id, before=snap(a.obj))
        si.info.setdefault("value", list(val) if not hasattr(val, "__next__") else [])

        def do():
            setattr(a.obj, acc, val)
            return True
        si.info["ok"] = self._do(si, do) is True
        if si.info["ok"]:
            # the column object was replaced: views of the old column are detached from now on
            a.extra["col_tokens"][i] = self.new_token()
        return si

    # =============================================================== renames
    def op_rename_vec(self, step):
        a = self.pick(step[1], "vec")
        if a is None:
            return None
        new = VNAMES[step[2] % len(VNAMES)]
        si = StepInfo("rename_vec", "rename")
        si.operands = [a]
        si.may_change = self.write_set(a)
        si.info.update(new=new, target=a.id)

        def do():
            a.obj.name = new
            return True
        si.info["ok"] = self._do(si, do) is True
        return si

    def op_alias(self, step):
        a = self.pick(step[1], "vec")
        if a is None:
            return None
        new = VNAMES[1 + step[2] % (len(VNAMES) - 1)]
        si = StepInfo("alias", "rename")
        si.operands = [a]
        si.may_change = self.write_set(a)
        si.info.update(new=new, target=a.id, had_name=a.obj.name is not None)
        si.info["ok"] = self._do(si, lambda: a.obj.alias(new) is a.obj) is True
        return si

    def op_rename_column(self, step):
        a = self.pick(step[1], "table")
        if a is None or not a.obj.cols():
            return None
        names = list(a.obj.column_names())
        old = names[step[2] % len(names)] if step[3] % 5 else "missing"
        new = COLNAMES[step[3] % len(COLNAMES)]
        si = StepInfo("rename_column", "rename")
        si.operands = [a]
        si.may_change = self.write_set(a)
        si.info.update(old=old, new=new, target=a.id, names_before=names)
        si.info["ok"] = self._do(si, lambda: a.obj.rename_column(old, new) is a.obj) is True
        return si

    def op_rename_columns(self, step):
        a = self.pick(step[1], "table")
        if a is None or not a.obj.cols():
            return None
        names = list(a.obj.column_names())
        olds = [names[step[2] % len(names)], names[step[3] % len(names)] if step[3] % 4 else "missing"]
        news = [COLNAMES[step[2] % len(COLNAMES)], COLNAMES[step[3] % len(COLNAMES)]]
        si = StepInfo("rename_columns", "rename")
        si.operands = [a]
        si.may_change = self.write_set(a)
        si.info.update(olds=olds, news=news, target=a.id, names_before=names)
        si.info["ok"] = self._do(si, lambda: a.obj.rename_columns(olds, news) is a.obj) is True
        return si

    # =============================================================== lifetime
    def op_drop(self, step):
        a = self.pick(step[1])
        if a is None:
            return None
        si = StepInfo("drop", "lifetime")
        si.info["dropped"] = a.id
        self.entries.remove(a)
        a.obj = None
        return si

    def op_drop_cycle(self, step):
        """the handle is dropped but the object stays reachable from a reference cycle until gc runs"""
        a = self.pick(step[1])
        if a is None:
            return None
        si = StepInfo("drop_cycle", "lifetime")
        si.info["dropped"] = a.id
        self.entries.remove(a)
        cyc = [a.obj]
        cyc.append(cyc)
        self.cycles.append((a.id, weakref.ref(a.obj), a.token))
        a.obj = None
        del cyc
        return si

    def op_drop_tuple(self, step):
        """the caller lets go of one of its tuples (vectors built over it keep it alive as long as they use it)"""
        si = StepInfo("drop_tuple", "lifetime")
        self.tuples.pop(step[1] % 2, None)
        return si

    def op_gc(self, step):
        si = StepInfo("gc", "lifetime")
        gc.collect()
        self.cycles = [c for c in self.cycles if c[1]() is not None]
        return si

    def op_churn(self, step):
        """allocate and free objects of the sizes live tables use, to provoke id() reuse"""
        si = StepInfo("churn", "lifetime")
        sizes = {len(e.obj.cols()) for e in self.live("table")} | {len(e.obj) for e in self.live("vec")} | {2, 3}
        junk = []
        for _ in range(8 + step[1] % 8):
            for s in sizes:
                junk.append(tuple(range(s)))
                junk.append(S.Vector(list(range(s))))
        del junk
        return si


def run_program(prog, hooks):
    """run one program in a clean world; the previous case must not leak objects into this one"""
    gc.collect()
    # no state flows between cases: the library's process-wide alias registry starts empty
    S._ALIAS_TRACKER._registry.clear()
    w = World(hooks)
    try:
        w.run(prog)
    finally:
        for e in w.entries:
            e.obj = None
        w.entries = []
        w.rows = []
        w.cycles = []
        w.tuples = {}
    return w
