#!/bin/bash
# tools/eval_round.sh <round-tag e.g. r3> <dir-prefix e.g. /tmp/s3_> <n patches> [cNN ...]
tag=$1; pre=$2; n=$3; shift 3
ids=${@:-c01 c02 c03 c04 c05 c06 c07 c08 c09 c10 c11 c12 c13 c14 c15 c16 c17 c18 c19 c20}
cd /verif
for id in $ids; do P=$(echo $id | tr a-z A-Z)
 for i in $(seq 1 $n); do
  [ -f $pre$id/patch$i.diff ] || { echo "$id-$tag-$i: no patch"; continue; }
  python3 tools/keep_seeded.py ${id}-$tag-$i $P $pre$id/patch$i.diff $pre$id/demo$i.py $pre$id/notes$i.md ${CHECKS:+--checks $CHECKS} 2>&1 | python3 -c "
import sys,json
t=sys.stdin.read()
try:
    m=json.loads(t[:t.rindex('}')+1]); print(m['seed_id'], 'confirmed',m['confirmed'], 'applies',m['patch_applies'],'tests',m['repo_tests_with_patch'][:11],'demo',m['demo_without_patch']['rc'],m['demo_with_patch']['rc'],'detected',m['detected_by'], [v['tags'][:1] for v in m['checks'].values()])
except Exception as e: print('PARSE FAIL', t[-300:])"
 done; done
