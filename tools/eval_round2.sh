#!/bin/bash
# tools/eval_round2.sh cNN [checks]   evaluate the three round-2 patches of one property
id=$1; P=$(echo $id | tr a-z A-Z); X=""; [ -n "$2" ] && X="--checks $2"
for i in 1 2 3; do
  [ -f /tmp/s2_$id/patch$i.diff ] || { echo "$id-r2-$i: no patch"; continue; }
  python3 tools/keep_seeded.py ${id}-r2-$i $P /tmp/s2_$id/patch$i.diff /tmp/s2_$id/demo$i.py /tmp/s2_$id/notes$i.md $X 2>&1 | python3 -c "
import sys,json
t=sys.stdin.read()
try:
    m=json.loads(t[:t.rindex('}')+1]); print(m['seed_id'], 'confirmed',m['confirmed'], 'applies', m['patch_applies'], 'tests', m['repo_tests_with_patch'][:12], 'demo', m['demo_without_patch']['rc'], m['demo_with_patch']['rc'], 'detected',m['detected_by'], [v['tags'][:2] for v in m['checks'].values()])
except Exception as e: print('PARSE FAIL', t[-300:])"
done
