#!/usr/bin/env python3
"""Regenerate MANIFEST.json from the check modules that exist (keeps the manifest valid at all times)."""
import importlib
import json
import os
import sys

HERE = os.path.dirname(os.path.dirname(os.path.abspath(__file__)))
sys.path.insert(0, HERE)
os.chdir(HERE)

props = [json.loads(l) for l in open("properties.jsonl")]
checks, na = [], []
for p in props:
    pid = p["id"]
    if not os.path.exists(f"checks/{pid.lower()}.py"):
        na.append({"property_id": pid, "reason": "check not implemented in this revision of /verif (planned: see DESIGN.md section 5)"})
        continue
    mod = importlib.import_module(f"checks.{pid.lower()}")
    checks.append({
        "property_id": pid,
        "quick_cmd": f"./check {pid} --tier quick",
        "thorough_cmd": f"./check {pid} --tier thorough",
        "evidence_file": f"/verif/evidence/{pid}.json",
        "replay_cmd_template": f"./check {pid} --replay {{path}}",
        "engine": getattr(mod, "ENGINE", "harness"),
        "level_claimed": {
            "category": getattr(mod, "LEVEL", "exploration"),
            "text": getattr(mod, "LEVEL_TEXT", "generated-input search against an explicit oracle; bounded, no proof of absence"),
            "design_ref": getattr(mod, "DESIGN_REF", "DESIGN.md section 5"),
        },
        "level_note": getattr(mod, "LEVEL_NOTE", "; ".join(getattr(mod, "ASSUMPTIONS", [])) or "trusts CPython, Hypothesis and the reference model in harness/refmodel.py"),
        "technique": getattr(mod, "TECHNIQUE", "property-based testing (Hypothesis) against a reference model"),
    })

manifest = {
    "version": 1,
    "setup_cmd": "./setup",
    "hooks": {
        "guard": "SERIF_VERIF",
        "enable": "no source hooks are needed: checks import /repo/src directly (pure Python); SERIF_VERIF=1 is exported by the harness and reserved",
        "baseline_off_cmd": "cd /repo && env -u SERIF_VERIF /venv/bin/python -m pytest -q -p no:cacheprovider",
        "source_commits": [],
        "add_only": True,
    },
    "engines": [
        {"name": "harness", "path": "harness/", "serves_properties": [c["property_id"] for c in checks],
         "kind_free_text": "runner (tiers, seeds, 16-way sharding, collect-then-shrink, known findings, replay), codec, value strategies, reference models"},
        {"name": "world", "path": "harness/world.py", "serves_properties": [c["property_id"] for c in checks if c["engine"] == "world"],
         "kind_free_text": "operation-history (program) strategy + interpreter over a pool of live vectors/tables; hooks per check"},
        {"name": "relational", "path": "harness/relational.py", "serves_properties": [c["property_id"] for c in checks if c["engine"] == "relational"],
         "kind_free_text": "join / group-by / sort case generators, table realisation, PYTHONHASHSEED child driver"},
        {"name": "elementwise", "path": "checks/c05.py", "serves_properties": [c["property_id"] for c in checks if c["engine"] == "elementwise"],
         "kind_free_text": "operand-pair generators and per-element Python reference shared by C05-C08"},
        {"name": "fuzz", "path": "fuzz/", "serves_properties": ["C17", "C19", "C20"],
         "kind_free_text": "atheris (libFuzzer) targets with the semantic oracle inside, driven by harness/fuzzdrive.py in the thorough tier"},
    ],
    "checks": checks,
    "not_applicable": na,
    "notes": "Technique family: property-based testing and fuzzing. ./check <ID> --tier quick|thorough honours VERIF_SEED, VERIF_TIER, VERIF_JOBS, VERIF_REPO. Exit 0 held / 1 VIOLATION / 2 harness error. Known findings and repaired defects: KNOWN_FINDINGS.txt; regression cases: regress/<ID>/; seeded breaking changes used to validate sensitivity: seeded/<id>/.",
}
json.dump(manifest, open("MANIFEST.json", "w"), indent=1)
open("MANIFEST.json", "a").write("\n")
try:
    import jsonschema
    jsonschema.validate(manifest, json.load(open("/root/.vp/MANIFEST.schema.json")))
    print("MANIFEST.json valid;", len(checks), "checks,", len(na), "not_applicable")
except ImportError:
    print("MANIFEST.json written (jsonschema not available to validate);", len(checks), "checks")
