#!/usr/bin/env python3
"""tools/keep_seeded.py <seed-id> <PROP> <patch> <demo.py> <notes.md> [--checks C09,C10]
Confirms a seeded change independently (scratch worktree of /repo HEAD: demo passes, patch applies, repo tests
pass with it, demo fails with it), runs the named checks (default: the property's own) against it and stores
everything under /verif/seeded/<seed-id>/ (patch.diff, demo.py, notes.md, meta.json)."""
import json, os, shutil, subprocess, sys, tempfile

sid, prop, patch, demo, notes = sys.argv[1:6]
patch, demo, notes = (os.path.abspath(x) for x in (patch, demo, notes))
checks = [prop]
if "--checks" in sys.argv:
    checks = sys.argv[sys.argv.index("--checks") + 1].split(",")
tier = os.environ.get("TIER", "quick")
wt = tempfile.mkdtemp(prefix="seedchk_", dir="/tmp"); os.rmdir(wt)


def sh(cmd, **kw):
    return subprocess.run(cmd, shell=True, capture_output=True, text=True, **kw)


sh(f"git -C /repo worktree add -q --detach {wt} HEAD")
meta = {"seed_id": sid, "property": prop, "repo_head": sh("git -C /repo log --format=%h -1").stdout.strip()}
try:
    env = dict(os.environ, PYTHONPATH=f"{wt}/src")
    r = sh(f"/venv/bin/python {demo}", env=env, cwd=wt)
    meta["demo_without_patch"] = {"rc": r.returncode, "tail": r.stdout.strip()[-200:]}
    r = sh(f"git -C {wt} apply {patch}")
    if r.returncode != 0:
        r = sh(f"git -C {wt} apply --3way {patch}")
    meta["patch_applies"] = r.returncode == 0
    r = sh("/venv/bin/python -m pytest -q -p no:cacheprovider 2>&1 | tail -1", env=env, cwd=wt)
    meta["repo_tests_with_patch"] = r.stdout.strip()
    r = sh(f"/venv/bin/python {demo}", env=env, cwd=wt)
    meta["demo_with_patch"] = {"rc": r.returncode, "tail": r.stdout.strip()[-300:]}
    meta["checks"] = {}
    for c in checks:
        r = sh(f"VERIF_EVIDENCE_DIR=/verif/scratch/evidence_scratch VERIF_REPO={wt} ./check {c} --tier {tier}", cwd="/verif")
        tags = [l.strip()[4:] for l in r.stdout.splitlines() if l.startswith("  tag=")]
        meta["checks"][c] = {"tier": tier, "rc": r.returncode, "tags": tags[:5]}
finally:
    sh(f"git -C /repo worktree remove --force {wt}"); shutil.rmtree(wt, ignore_errors=True)
ok = (meta["demo_without_patch"]["rc"] == 0 and meta["patch_applies"] and "490 passed" in meta["repo_tests_with_patch"]
      and meta["demo_with_patch"]["rc"] != 0)
meta["confirmed"] = ok
meta["detected_by"] = [c for c, v in meta["checks"].items() if v["rc"] == 1]
meta["ran"] = [f"git worktree add <scratch> HEAD; python demo.py (expect PASS); git apply patch.diff; pytest (expect 490 passed); python demo.py (expect FAIL); VERIF_REPO=<scratch> ./check {c} --tier {tier}" for c in checks]
print(json.dumps(meta, indent=1))
if ok:
    d = f"/verif/seeded/{sid}"
    os.makedirs(d, exist_ok=True)
    for src, dst in ((patch, f"{d}/patch.diff"), (demo, f"{d}/demo.py"), (notes, f"{d}/notes.md")):
        if os.path.exists(src) and os.path.abspath(src) != os.path.abspath(dst):
            shutil.copy(src, dst)
    if os.path.exists(notes):
        meta["needs_to_manifest"] = open(notes).read()[:1500]
    json.dump(meta, open(f"{d}/meta.json", "w"), indent=1)
    print("KEPT", d)
else:
    print("NOT CONFIRMED - not kept")
