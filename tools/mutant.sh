#!/bin/bash
# tools/mutant.sh <patch.diff> <PROP> [<PROP> ...]   (env: TIER=quick|thorough, VERIF_SEED)
# Applies a seeded change to a throw-away worktree of /repo HEAD (outside /repo and /verif), checks that
# the repository's own tests still pass there, runs the named checks against it and removes the worktree.
patch=$(readlink -f "$1"); shift
wt=$(mktemp -d /tmp/mut_XXXXXX); rmdir "$wt"
git -C /repo worktree add -q --detach "$wt" HEAD || exit 2
trap 'git -C /repo worktree remove --force "$wt" >/dev/null 2>&1; rm -rf "$wt"' EXIT
if ! git -C "$wt" apply "$patch" 2>/dev/null; then
  if ! git -C "$wt" apply --3way "$patch" >/dev/null 2>&1; then echo "PATCH DOES NOT APPLY: $patch"; exit 3; fi
fi
if [ -z "$SKIP_TESTS" ]; then
  t=$(cd "$wt" && PYTHONPATH="$wt/src" /venv/bin/python -m pytest -q -p no:cacheprovider -x 2>&1 | tail -1)
  echo "repo tests with patch: $t"
fi
cd /verif
export VERIF_EVIDENCE_DIR=/verif/scratch/evidence_scratch
for p in "$@"; do
  out=$(VERIF_REPO="$wt" ./check "$p" --tier "${TIER:-quick}" 2>&1); rc=$?
  echo "== $p rc=$rc"
  echo "$out" | grep -E "^(VIOLATION|  tag=|  detail=|HARNESS|KNOWN|OK)" | cut -c1-300 | head -12
done
