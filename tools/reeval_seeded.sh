#!/bin/bash
# tools/reeval_seeded.sh [seed-id ...]   re-run the registered check(s) of every kept seeded change (default: all of seeded/)
# against a scratch worktree with the change applied; prints one line per change. Nothing is written to seeded/ or evidence/.
cd /verif
ids=${@:-$(ls seeded)}
for id in $ids; do
  d=seeded/$id
  [ -f $d/patch.diff ] || continue
  props=$(python3 -c "
import json,sys
m=json.load(open('$d/meta.json'))
c=m.get('detected_by') or [m.get('property')]
print(' '.join(c))")
  out=$(SKIP_TESTS=1 tools/mutant.sh $d/patch.diff $props 2>&1)
  if echo "$out" | grep -q "^VIOLATION"; then echo "$id detected $(echo "$out" | grep -m1 '  tag=' | cut -c1-120)";
  elif echo "$out" | grep -q "DOES NOT APPLY"; then echo "$id PATCH-DOES-NOT-APPLY";
  else echo "$id MISSED $(echo "$out" | grep -E '^(OK|HARNESS)' | cut -c1-100)"; fi
done
