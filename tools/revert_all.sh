#!/bin/bash
# every repair reverted in a scratch worktree must make its property's check fail again
cd /verif
while read c props; do tools/revert_check.sh $c $props; done <<'LIST'
365b40b C04
c0a660f C11
330cd23 C12 C06
4a96f01 C14
6c7adc9 C07
f0ea9fc C07
7a8e3de C07 C06
1126633 C05
d1702b4 C05 C06
0f1a266 C04 C03
c7fb7a4 C06
e4736d7 C06
86423fb C08 C03
df8a76a C19
8e29f4f C20
76e705f C20
b4a9a52 C17
f2e1aa9 C17
41efd24 C01
30ad5c1 C02
f08d7ad C02
d0efc46 C15
d7d3068 C15
3c9cb44 C16
8e3f77a C03
9e71e05 C03
24d3e91 C03
e1edb33 C03
75146d6 C17
LIST
