#!/bin/bash
# tools/revert_check.sh <repo-commit> <PROP> [<PROP>...]
# Sensitivity through reverted repairs: a scratch worktree of /repo HEAD with the given fix commit reverse-applied
# must make the named check(s) report a violation again.
c=$1; shift
wt=$(mktemp -d /tmp/rev_XXXXXX); rmdir "$wt"
git -C /repo worktree add -q --detach "$wt" HEAD || exit 2
trap 'git -C /repo worktree remove --force "$wt" >/dev/null 2>&1; rm -rf "$wt"' EXIT
if ! git -C /repo show "$c" -- src | git -C "$wt" apply -R 2>/dev/null; then
  git -C /repo show "$c" -- src | git -C "$wt" apply -R --3way >/dev/null 2>&1 || { echo "cannot reverse-apply $c"; exit 3; }
fi
cd /verif
export VERIF_EVIDENCE_DIR=/verif/scratch/evidence_scratch
for p in "$@"; do
  out=$(VERIF_REPO="$wt" ./check "$p" --tier "${TIER:-quick}" 2>&1); rc=$?
  echo "== revert $c: $p rc=$rc $(echo "$out" | grep -E '^  tag=' | head -3 | tr '\n' ' ' | cut -c1-260)"
done
