#!/bin/bash
# tools/sweep_seeds.sh "<seeds>" [tier]  -- every check at several seeds on the unchanged tree (must all be quiet)
cd /verif
for s in $1; do for i in 01 02 03 04 05 06 07 08 09 10 11 12 13 14 15 16 17 18 19 20; do
  out=$(VERIF_SEED=$s ./check C$i --tier ${2:-quick} 2>&1); rc=$?
  echo "seed=$s C$i rc=$rc $(echo "$out" | tail -1 | cut -c1-160)"
done; done
